/* C15 (reduced scope: acceptance logic) -- the two wrappers around an informed sampler.
 *  InformedStateSampler::sampleUniform: the informed sampler is asked exactly once, with the CURRENT best cost; what is left in the state is either the sample it
 *     accepted (untouched afterwards) or, when it gave up, a plain sample of the base sampler drawn afterwards.
 *  OrderedInfSampler::sampleUniform(state, maxCost): the state handed out is a copy of the queue's top, taken only after that very element passed the strict cost
 *     test against the bound of THIS call (batches may be stale); the element is freed exactly once and leaves the queue; a failing top clears the whole batch;
 *     the queue is never inspected while empty.  createBatch / clearBatch: every allocated sample is queued, every queued sample is freed exactly once.
 * Priority queue = array with a ghost order (top = last slot); samples are ids 1.. with ghost costs.  Bounded: batch size <= 3, <= 3 batches per call. */
#include <stdbool.h>
#include <stddef.h>
#define REACH(msg) __CPROVER_assert(0, "REACH " msg)
#define NS 16
#define QMAX 4
bool nondet_bool(void); double nondet_double(void); unsigned nondet_unsigned(void);
/* ---- InformedStateSampler ---- */
unsigned ver, inf_calls, base_calls, best_calls; double BEST_NOW, inf_bound; bool INF_RESULT; unsigned inf_ver, base_ver;
static double BEST_COST(void) { best_calls++; return BEST_NOW; }
static bool INF_SAMPLE(double c) { inf_calls++; inf_bound = c; ver++; inf_ver = ver; return INF_RESULT; }
static void BASE_SAMPLE(void) { base_calls++; ver++; base_ver = ver; }
void iss_sampleUniform(void)
/*@BODY iss_sampleUniform@*/
/* ---- OrderedInfSampler ---- */
int Q[QMAX]; unsigned qn; double COST[NS]; bool live[NS]; unsigned frees[NS]; unsigned next_id; unsigned batches, batchSize_; double CUR_MAX; int out_content; bool tested[NS]; bool top_on_empty;
static bool Q_EMPTY(void) { return qn == 0; }
static int Q_TOP(void) { if (qn == 0) { top_on_empty = true; return 0; } return Q[qn - 1]; }
static void Q_POP(void) { __CPROVER_assert(qn > 0, "pop on a non-empty queue"); qn--; }
static void Q_PUSH(int s) { __CPROVER_assert(qn < QMAX, "model capacity"); Q[qn++] = s; }
static int ALLOC(void) { __CPROVER_assert(next_id < NS, "model capacity"); int s = (int)next_id++; live[s] = true; frees[s] = 0; tested[s] = false; return s; }
static void FREE(int s) { __CPROVER_assert(s > 0 && s < NS && live[s], "free of a live sample"); live[s] = false; frees[s]++; }
static double HEUR_OF(int s) { return COST[s]; }
static bool BETTER(int s, double h, double maxc) { tested[s] = (h < maxc) && maxc == CUR_MAX; return h < maxc; }
static void COPY_OUT(int s) { __CPROVER_assert(s > 0 && s < NS && live[s], "copy from a live sample"); out_content = s; }
static void SAMPLE_INTO(int s, double maxc) { double c = nondet_double(); __CPROVER_assume(c == c); if (batches >= 3) __CPROVER_assume(c < CUR_MAX); COST[s] = c; }
void ord_createBatch(double maxCost)
/*@BODY ord_createBatch@*/
void ord_clearBatch(void)
/*@BODY ord_clearBatch@*/
static void CREATE_BATCH(double maxc) { batches++; ord_createBatch(maxc); }
bool ord_sampleUniform(double maxCost)
/*@BODY ord_sampleUniform@*/
/* ---- InformedSampler::heuristicSolnCost: the best over ALL start states ---- */
#define NST 4
unsigned N_STARTS; double VIA[NST]; unsigned via_calls[NST]; double INF_COST;
static double VIA_START(unsigned i) { __CPROVER_assert(i < N_STARTS && i < NST, "start index"); via_calls[i]++; return VIA[i]; }
static double BETTER_COST(double a, double b) { return b < a ? b : a; }
double is_heuristicSolnCost(void)
/*@BODY is_heuristicSolnCost@*/
void h_heur(void)
{
    __CPROVER_assume(N_STARTS >= 1 && N_STARTS <= NST && INF_COST == __builtin_inf()); for (unsigned i = 0; i < NST; i++) { __CPROVER_assume(VIA[i] == VIA[i] && VIA[i] < INF_COST); via_calls[i] = 0; }
    double r = is_heuristicSolnCost();
    unsigned g = nondet_unsigned(); __CPROVER_assume(g < N_STARTS);
    __CPROVER_assert(r <= VIA[g] && via_calls[g] == 1, "C15.cost the heuristic solution cost is the best over ALL start states: no start offers a cheaper solution through the state");
    bool attained = false; for (unsigned i = 0; i < NST; i++) if (i < N_STARTS && VIA[i] == r) attained = true;
    __CPROVER_assert(attained, "C15.cost and it is the cost through one of them");
    if (N_STARTS == 1) REACH("single start"); if (N_STARTS == 3 && r == VIA[0] && r < VIA[1] && r < VIA[2]) REACH("first of three starts is best");
}
/* ---- OrderedInfSampler::queueComparator: std::priority_queue::top() is an element x with !comp(x, y) for every y -- it must be a cheapest sample ---- */
static double HC(int s) { return COST[s]; }
bool ord_queueComparator(int a, int b)
/*@BODY ord_queueComparator@*/
void h_cmp(void)
{
    int a = (int)nondet_unsigned(), b = (int)nondet_unsigned(); __CPROVER_assume(a >= 1 && a < NS && b >= 1 && b < NS && COST[a] == COST[a] && COST[b] == COST[b]);
    bool ab = ord_queueComparator(a, b), ba = ord_queueComparator(b, a), aa = ord_queueComparator(a, a);
    __CPROVER_assert(!aa && !(ab && ba), "the queue order is irreflexive and asymmetric (a valid strict order for std::priority_queue)");
    __CPROVER_assert(!ab == !(COST[b] < COST[a]), "C15.cost a sample orders below another exactly when the other is cheaper: top() is a sample with the smallest heuristic cost");
    if (ab) REACH("b cheaper"); if (!ab && !ba) REACH("equal cost");
}
void h_iss(void)
{
    __CPROVER_assume(BEST_NOW == BEST_NOW); ver = 0; inf_calls = base_calls = best_calls = 0; inf_ver = base_ver = 99;
    iss_sampleUniform();
    __CPROVER_assert(inf_calls == 1 && best_calls == 1 && inf_bound == BEST_NOW, "C15.cost the informed sampler is asked once, with the current best cost as the bound");
    if (INF_RESULT) { __CPROVER_assert(base_calls == 0 && ver == inf_ver, "C15.cost an accepted informed sample is handed out untouched"); REACH("informed"); }
    else { __CPROVER_assert(base_calls == 1 && ver == base_ver, "C15.bounds when the informed sampler gives up the state is a fresh base sample (in bounds)"); REACH("fallback"); }
}
static void init_q(void)
{
    next_id = 1; qn = 0; batches = 0; top_on_empty = false; out_content = 0; __CPROVER_assume(batchSize_ >= 1 && batchSize_ <= 3); __CPROVER_assume(CUR_MAX == CUR_MAX);
    /* a possibly stale batch left by an earlier call (generated for another bound) */
    unsigned k = nondet_unsigned(); __CPROVER_assume(k <= 3);
    for (unsigned i = 0; i < k; i++) { int s = ALLOC(); double c = nondet_double(); __CPROVER_assume(c == c); COST[s] = c; Q_PUSH(s); }
}
void h_ord(void)
{
    init_q(); unsigned n0 = next_id;
    bool r = ord_sampleUniform(CUR_MAX);
    __CPROVER_assert(r && out_content > 0 && !top_on_empty, "a sample is handed out; the queue is never inspected while empty");
    __CPROVER_assert(tested[out_content] && COST[out_content] < CUR_MAX, "C15.cost the sample handed out passed the strict cost test against the bound of this call");
    __CPROVER_assert(!live[out_content] && frees[out_content] == 1, "the queue element is freed exactly once after being copied");
    for (unsigned i = 0; i < QMAX; i++) if (i < qn) __CPROVER_assert(Q[i] != out_content && live[Q[i]], "the element left the queue; what remains is live");
    int g = (int)nondet_unsigned(); __CPROVER_assume(g >= 1 && g < (int)next_id);
    bool inq = false; for (unsigned i = 0; i < QMAX; i++) if (i < qn && Q[i] == g) inq = true;
    __CPROVER_assert(inq == live[g] && frees[g] <= 1, "C15.mem every sample ever created is either still queued or freed exactly once (ghost sample g)");
    if (batches == 0) REACH("served from the old batch"); if (batches >= 2) REACH("two batches discarded"); if (batches == 1 && n0 > 1) REACH("stale batch cleared");
}
void h_batch(void)
{
    init_q(); __CPROVER_assume(qn == 0); unsigned n0 = next_id;
    ord_createBatch(CUR_MAX);
    __CPROVER_assert(qn == batchSize_ && next_id == n0 + batchSize_, "createBatch: batchSize_ samples allocated and all of them queued");
    ord_clearBatch();
    int g = (int)nondet_unsigned(); __CPROVER_assume(g >= 1 && g < (int)next_id);
    __CPROVER_assert(qn == 0 && !live[g] && frees[g] == 1, "clearBatch: the queue is empty and every sample was freed exactly once");
    REACH("batch created and cleared");
}
