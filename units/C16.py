"""C16 -- constrained spaces keep states on the manifold (reduced to the STRUCTURE of the projection-based space: Newton projection's
success report, the geodesic traversal's admission of states, interpolation picking a traversed state, the motion validator, the sampler)."""
import re
PROPERTY = "C16"
LEVEL = "proof"
CON = "src/ompl/base/src/Constraint.cpp"
PSS = "src/ompl/base/spaces/constraint/src/ProjectedStateSpace.cpp"
CSS = "src/ompl/base/spaces/constraint/src/ConstrainedStateSpace.cpp"
FLAGS = ["--bounds-check", "--pointer-check", "--signed-overflow-check", "--conversion-check", "--div-by-zero-check", "--object-bits", "12"]
PROJ_RULES = [
    (r"Eigen::VectorXd f\(getCoDimension\(\)\);", "", 0), (r"Eigen::MatrixXd j\(getCoDimension\(\), n_\);", "", 0),
    (r"function\(x, f\);", "FUNCTION();", 0), (r"f\.squaredNorm\(\)", "SQNORM()", 0), (r"jacobian\(x, j\);", "JACOBIAN();", 0),
    (r"x -= j\.jacobiSvd\(Eigen::ComputeThinU \| Eigen::ComputeThinV\)\.solve\(f\);", "NEWTON_STEP();", 0),
    (r"const Eigen::VectorXd (\w+) = j\.jacobiSvd\(Eigen::ComputeThinU \| Eigen::ComputeThinV\)\.solve\(f\);", "SOLVE_STEP();", 0), (r"\bdx\.squaredNorm\(\)", "DXNORM()", 0), (r"x -= dx;", "APPLY_STEP();", 0), (r"f\.allFinite\(\)", "ALLFINITE()", 0),
]
PROJ_SRC = [
    dict(name="project", file=CON, sig=r"bool ompl::base::Constraint::project\(Eigen::Ref<Eigen::VectorXd> x\) const", rules=PROJ_RULES, loops={1: """
__CPROVER_assigns(norm, iter, xver, fver, jver, steps, last_norm, last_norm_ver, step_pending)
__CPROVER_loop_invariant(iter <= maxIterations_ && fver == xver && steps == iter && xver == steps)
__CPROVER_decreases(maxIterations_ - iter)
"""}),
    dict(name="isSatisfied", file=CON, sig=r"bool ompl::base::Constraint::isSatisfied\(const Eigen::Ref<const Eigen::VectorXd> &x\) const", rules=PROJ_RULES, loops={}),
]
ACH = "src/ompl/base/spaces/constraint/src/AtlasChart.cpp"
PSI_RULES = [
    (r"Eigen::VectorXd x0\(n_\);\s*phi\(u, x0\);", "", 0), (r"Eigen::MatrixXd A\(n_, n_\);\s*Eigen::VectorXd b\(n_\);", "", 0), (r"constraint_->getTolerance\(\)", "tolerance_", 0), (r"tolerance \* tolerance", "SQUARE(tolerance)", 0), (r"out = x0;", "", 0),
    (r"A\.block\(n_ - k_, 0, k_, n_\) = bigPhi_\.transpose\(\);", "", 0), (r"constraint_->function\(out, b\.head\(n_ - k_\)\);", "FUNCTION();", 0), (r"b\.tail\(k_\)\.setZero\(\);", "", 0),
    (r"b\.squaredNorm\(\)", "SQNORM()", 0), (r"constraint_->getMaxIterations\(\)", "maxIterations_", 0), (r"constraint_->jacobian\(out, A\.block\(0, 0, n_ - k_, n_\)\);", "JACOBIAN();", 0),
    (r"out -= A\.partialPivLu\(\)\.solve\(b\);", "NEWTON_STEP();", 0), (r"b\.tail\(k_\) = bigPhi_\.transpose\(\) \* \(out - x0\);", "", 0),
]
PROJ_SRC.append(dict(name="psi", file=ACH, sig=r"bool ompl::base::AtlasChart::psi\(const Eigen::Ref<const Eigen::VectorXd> &u, Eigen::Ref<Eigen::VectorXd> out\) const", rules=PSI_RULES, loops={1: """
__CPROVER_assigns(norm, iter, xver, fver, jver, steps, last_norm, last_norm_ver, step_pending)
__CPROVER_loop_invariant(iter <= maxIterations_ && fver == xver && steps == iter && xver == steps)
__CPROVER_decreases(maxIterations_ - iter)
"""}))
STUBS = ["FUNCTION", "JACOBIAN", "SQNORM", "NEWTON_STEP", "ALLFINITE", "SQUARE", "SOLVE_STEP", "DXNORM", "APPLY_STEP"]
UNITS = [
    dict(name="c16_constraint_project", template="C16/project.c", entry="h_project", enforce=["constraint_project"], replace=STUBS, sources=PROJ_SRC, flags=FLAGS, level="proof", backend="minisat", timeout=600,
         functions=["ompl::base::Constraint::project(Eigen::Ref<Eigen::VectorXd>)"], expect_loops=1, confirm=dict(unwind=4, defines={}),
         canaries=[dict(name="residual_not_refreshed", where="body:project", rx=r"NEWTON_STEP\(\);\s*FUNCTION\(\);", repl="NEWTON_STEP();"),
                   dict(name="success_without_looking", where="body:project", rx=r"return norm < squaredTolerance;", repl="return norm < squaredTolerance || iter > maxIterations_;")]),
    dict(name="c16_atlaschart_psi", template="C16/project.c", entry="h_psi", enforce=["chart_psi"], replace=STUBS, sources=PROJ_SRC, flags=FLAGS, level="proof", backend="minisat", timeout=600,
         functions=["ompl::base::AtlasChart::psi"], expect_loops=1, confirm=dict(unwind=4, defines={}),
         canaries=[dict(name="unsquared_tolerance", where="body:psi", rx=r"return norm < squaredTolerance;", repl="return norm < tolerance;")]),
    dict(name="c16_constraint_isSatisfied", template="C16/project.c", entry="h_isSatisfied", enforce=["constraint_isSatisfied"], replace=STUBS, sources=PROJ_SRC, flags=FLAGS, level="proof", backend="minisat", timeout=300,
         functions=["ompl::base::Constraint::isSatisfied(Eigen::Ref<const Eigen::VectorXd>)"], expect_loops=0,
         canaries=[dict(name="ignores_non_finite", where="body:isSatisfied", rx=r"ALLFINITE\(\) && ", repl="")]),
]
GEO_RULES = [
    (r"geodesic != nullptr", "HAS_GEODESIC", 0), (r"geodesic->clear\(\);", "GEO_CLEAR();", 0), (r"geodesic->push_back\(cloneState\(from\)\);", "GEO_PUSH_FROM();", 0),
    (r"geodesic->push_back\(cloneState\(scratch\)\);", "GEO_PUSH_SCRATCH();", 0),
    (r"distance\(from, to\)", "DIST_TO(cid_from)", 0), (r"distance\(scratch, to\)", "DIST_TO(cid_scr)", 0), (r"distance\(previous, scratch\)", "DIST_STEP()", 0),
    (r"auto previous = cloneState\(from\);", "CLONE_FROM_INTO_PREVIOUS();", 0), (r"auto scratch = allocState\(\);", "ALLOC_SCRATCH();", 0), (r"auto &&svc = si_->getStateValidityChecker\(\);", "", 0),
    (r"WrapperStateSpace::interpolate\(previous, to, delta_ / dist, scratch\);", "INTERPOLATE_INTO_SCRATCH(delta_ / dist);", 0),
    (r"constraint_->project\(scratch\)", "PROJECT_SCRATCH()", 0), (r"svc->isValid\(scratch\)", "ISVALID_SCRATCH()", 0), (r"copyState\(previous, scratch\);", "COPY_SCRATCH_TO_PREVIOUS();", 0),
    (r"freeState\(scratch\);", "FREE_SCRATCH();", 0), (r"freeState\(previous\);", "FREE_PREVIOUS();", 0),
]
GEO_STUBS = ["GEO_CLEAR", "GEO_PUSH_FROM", "GEO_PUSH_SCRATCH", "DIST_TO", "DIST_STEP", "CLONE_FROM_INTO_PREVIOUS", "ALLOC_SCRATCH", "INTERPOLATE_INTO_SCRATCH", "PROJECT_SCRATCH", "ISVALID_SCRATCH", "COPY_SCRATCH_TO_PREVIOUS", "FREE_SCRATCH", "FREE_PREVIOUS"]
UNITS.append(dict(name="c16_projected_discreteGeodesic", template="C16/geodesic.c", entry="h_geodesic", enforce=["pss_discreteGeodesic"], replace=GEO_STUBS, flags=FLAGS + ["--object-bits", "10"], level="proof", backend="minisat", timeout=900,
                  functions=["ompl::base::ProjectedStateSpace::discreteGeodesic"], expect_loops=1, confirm=dict(unwind=4, defines={}),
                  sources=[dict(name="geodesic", file=PSS, sig=r"bool ompl::base::ProjectedStateSpace::discreteGeodesic\(const State \*from, const State \*to, bool interpolate,\s*std::vector<State \*> \*geodesic\) const", rules=GEO_RULES, loops={1: """
__CPROVER_assigns(dist, step, total, cid_prev, cid_scr, n_pushed, last_pushed_cid, proj_ok_cid, step_a, step_b, step_val, m0_cid, m1_cid, m0_val, m1_val, valid_checked_cid)
__CPROVER_loop_invariant(prev_alive && scr_alive && allocs == 2 && frees == 0 && dist >= delta_ && m0_cid == cid_prev && m0_val == dist && cid_prev != 0)
__CPROVER_loop_invariant(HAS_GEODESIC ==> (n_pushed >= 1 && last_pushed_cid == cid_prev))
"""})],
                  canaries=[dict(name="projection_result_ignored", where="body:geodesic", rx=r"if \(!PROJECT_SCRATCH\(\)", repl="if ((PROJECT_SCRATCH(), 0)"),
                            dict(name="step_bound_dropped", where="body:geodesic", rx=r"\|\| \(step = DIST_STEP\(\)\) > lambda_ \* delta_\)", repl="|| ((step = DIST_STEP()), 0))"),
                            dict(name="success_from_stale_distance", where="body:geodesic", rx=r"return dist <= tolerance;", repl="return dist <= tolerance || total > max;")]))

INT_RULES = [
    (r"std::vector<State \*> geodesic;", "geo_n = 0;", 0), (r"auto temp = from;", "SRef temp = from;", 0), (r"discreteGeodesic\(from, to, true, &geodesic\)", "DISCRETE_GEODESIC()", 0),
    (r"geodesicInterpolate\(geodesic, t\)", "css_geodesicInterpolate(t)", 0), (r"copyState\(state, temp\);", "COPYSTATE(state, temp);", 0),
    (r"for \(auto s : geodesic\)\s*freeState\(s\);", "for (unsigned k_ = 0; k_ < geo_n; ++k_) FREESTATE(GEO_AT(k_));", 0),
    (r"geodesic\.size\(\)", "geo_n", 0), (r"auto \*d = new double\[n\];", "double *d = D_NEW(n);", 0), (r"distance\(geodesic\[i - 1\], geodesic\[i\]\)", "DIST_IDX(i - 1, i)", 0),
    (r"std::numeric_limits<double>::epsilon\(\)", "DBL_EPSILON", 0), (r"delete\[\] d;", "D_DELETE(d);", 0), (r"geodesic\[([^\]]+)\]", r"GEO_AT(\1)", 0), (r"std::abs\(", "fabs(", 0),
    (r"\bassert\((.*)\);", r'__CPROVER_assert(\1, "assert in the code");', 0),
]
UNITS.append(dict(name="c16_constrained_interpolate", template="C16/interpolate.c", mode="plain", entry="h_interpolate", flags=FLAGS, unwind=5, level="bounded", bound="geodesics of <= 3 states", backend="minisat", timeout=1200,
                  functions=["ompl::base::ConstrainedStateSpace::interpolate", "ompl::base::ConstrainedStateSpace::geodesicInterpolate"],
                  sources=[dict(name="interpolate", file=CSS, sig=r"void ompl::base::ConstrainedStateSpace::interpolate\(const State \*from, const State \*to, const double t,\s*State \*state\) const", rules=INT_RULES, loops={"allow_uncontracted": True}),
                           dict(name="geodesicInterpolate", file=CSS, sig=r"ompl::base::State \*ompl::base::ConstrainedStateSpace::geodesicInterpolate\(const std::vector<State \*> &geodesic,\s*const double t\) const", rules=INT_RULES, loops={"allow_uncontracted": True})],
                  canaries=[dict(name="freed_before_copy", where="body:interpolate", rx=r"(COPYSTATE\(state, temp\);)\s*(for \(unsigned k_ = 0; k_ < geo_n; \+\+k_\) FREESTATE\(GEO_AT\(k_\)\);)", repl=r"\2 \1", props=[r"C16\.mem the chosen state is copied"]),
                            dict(name="buffer_leak_on_degenerate_geodesic", where="body:geodesicInterpolate", rx=r"D_DELETE\(d\);\s*return GEO_AT\(0\);", repl="return GEO_AT(0);", props=[r"C16\.mem every traversal state freed once", r"one buffer"])]))

MV_RULES = [
    (r"std::vector<ompl::base::State \*> stateList;", "sl_n = 0;", 0), (r"ss_\.discreteGeodesic\(s1, s2, false, &stateList\)", "DISCRETE_GEODESIC_LIST()", 0), (r"ss_\.discreteGeodesic\(s1, s2, false\)", "DISCRETE_GEODESIC_NOLIST()", 0),
    (r"stateList\.empty\(\)", "(sl_n == 0)", 0), (r"stateList\.size\(\)", "sl_n", 0), (r"stateList\.back\(\)", "SL_AT(sl_n - 1)", 0), (r"stateList\[([^\]]+)\]", r"SL_AT(\1)", 0),
    (r"lastValid\.first != nullptr", "LV_FIRST != NIL", 0), (r"lastValid\.first", "LV_FIRST", 0), (r"lastValid\.second", "LV_SECOND", 0),
    (r"ss_\.copyState\(", "COPYSTATE(", 0), (r"ss_\.distance\(", "DIST(", 0), (r"ss_\.freeState\(", "FREESTATE(", 0), (r"ss_\.getConstraint\(\)->isSatisfied\((\w+)\)", r"IS_SATISFIED(\1)", 0), (r"std::size_t", "size_t", 0),
]
MV_SRC = [dict(name="checkMotion", file=CSS, sig=r"bool ompl::base::ConstrainedMotionValidator::checkMotion\(const State \*s1, const State \*s2\) const", rules=MV_RULES, loops={}),
          dict(name="checkMotion_lv", file=CSS, sig=r"bool ompl::base::ConstrainedMotionValidator::checkMotion\(const State \*s1, const State \*s2,\s*std::pair<State \*, double> &lastValid\) const", rules=MV_RULES, loops={"allow_uncontracted": True})]
UNITS.append(dict(name="c16_constrained_checkMotion", template="C16/motion.c", mode="plain", entry="h_checkMotion", flags=FLAGS, level="proof", backend="minisat", timeout=300, sources=MV_SRC,
                  functions=["ompl::base::ConstrainedMotionValidator::checkMotion(s1, s2)"], canaries=[dict(name="target_not_tested", where="body:checkMotion", rx=r"IS_SATISFIED\(s2\) && ", repl="")]))
UNITS.append(dict(name="c16_constrained_checkMotion_lastValid", template="C16/motion.c", mode="plain", entry="h_checkMotion_lv", flags=[f for f in FLAGS if f != "--div-by-zero-check"], unwind=5, level="bounded", bound="traversals listing <= 3 states", backend="minisat", timeout=900, sources=MV_SRC,
                  functions=["ompl::base::ConstrainedMotionValidator::checkMotion(s1, s2, lastValid)"],
                  canaries=[dict(name="last_listed_state_leaked", where="body:checkMotion_lv", rx=r"FREESTATE\(SL_AT\(sl_n - 1\)\);", repl=""),
                            dict(name="target_not_tested", where="body:checkMotion_lv", rx=r"return IS_SATISFIED\(s2\) && reached;", repl="return reached;")]))

SMP_RULES = [(r"WrapperStateSampler::sample\w+\([^;]*\);", "WRAPPED_SAMPLE();", 0), (r"constraint_->project\(state\)", "PROJECT()", 0), (r"space_->enforceBounds\(state\);", "ENFORCE();", 0)]
UNITS.append(dict(name="c16_projected_sampler", template="C16/sampler.c", mode="plain", entry="h_samplers", flags=FLAGS, level="proof", backend="minisat", timeout=300,
                  functions=["ompl::base::ProjectedStateSampler::sampleUniform", "ompl::base::ProjectedStateSampler::sampleUniformNear", "ompl::base::ProjectedStateSampler::sampleGaussian"],
                  sources=[dict(name="sampleUniform", file=PSS, sig=r"void ompl::base::ProjectedStateSampler::sampleUniform\(State \*state\)", rules=SMP_RULES, loops={}),
                           dict(name="sampleUniformNear", file=PSS, sig=r"void ompl::base::ProjectedStateSampler::sampleUniformNear\(State \*state, const State \*near, const double distance\)", rules=SMP_RULES, loops={}),
                           dict(name="sampleGaussian", file=PSS, sig=r"void ompl::base::ProjectedStateSampler::sampleGaussian\(State \*state, const State \*mean, const double stdDev\)", rules=SMP_RULES, loops={})],
                  canaries=[dict(name="projection_dropped", where="body:sampleGaussian", rx=r"PROJECT\(\);", repl="")]))

ASS = "src/ompl/base/spaces/constraint/src/AtlasStateSpace.cpp"
ATL_RULES = [
    (r"auto &&svc = si_->getStateValidityChecker\(\);", "", 0), (r"constraint_->isSatisfied\(from\)", "IS_SATISFIED_FROM()", 0), (r"svc->isValid\(from\)", "ISVALID_FROM()", 0),
    (r"auto afrom = from->as<StateType>\(\);", "", 0), (r"auto ato = to->as<StateType>\(\);", "", 0), (r"AtlasChart \*c = getChart\(afrom\);", "int c = GET_CHART_FROM();", 0),
    (r"geodesic != nullptr", "HAS_GEODESIC", 0), (r"geodesic->clear\(\);", "GEO_CLEAR();", 0), (r"geodesic->push_back\(cloneState\(from\)\);", "GEO_PUSH_FROM();", 0), (r"geodesic->push_back\(cloneState\(scratch\)\);", "GEO_PUSH_SCRATCH();", 0),
    (r"distance\(from, to\)", "DIST_TO(cid_from)", 0), (r"distance\(scratch, to\)", "DIST_TO(cid_scr)", 0), (r"distance\(to, scratch\)", "DIST_TO(cid_scr)", 0),
    (r"const double step = distance\(scratch, temp\);", "const double step = DIST_STEP();", 0), (r"distance\(scratch, temp\)", "DIST_MISC()", 0), (r"distance\(from, scratch\)", "DIST_MISC()", 0),
    (r"auto scratch = cloneState\(from\)->as<StateType>\(\);", "CLONE_FROM_INTO_SCRATCH();", 0), (r"auto temp = allocState\(\)->as<StateType>\(\);", "ALLOC_TEMP();", 0),
    (r"Eigen::VectorXd u_j\(k_\), u_b\(k_\);", "", 0), (r"c->psiInverse\(\*scratch, u_j\);", ";", 0), (r"c->psiInverse\(\*ato, u_b\);", ";", 0),
    (r"u_j \+= factor \* delta_ \* \(u_b - u_j\)\.normalized\(\);", "STEP_IN_CHART();", 0), (r"c->psi\(u_j, \*temp\)", "PSI_INTO_TEMP()", 0), (r"std::numeric_limits<double>::epsilon\(\)", "DBL_EPSILON", 0),
    (r"copyState\(scratch, temp\);", "COPY_TEMP_TO_SCRATCH();", 0), (r"scratch->setChart\(c\);", "", 0), (r"svc->isValid\(scratch\)", "ISVALID_SCRATCH()", 0), (r"c->phi\(u_j, \*temp\);", "PHI_INTO_TEMP();", 0),
    (r"c->inPolytope\(u_j\)", "IN_POLYTOPE()", 0), (r"\(c = getChart\(scratch, true, &created\)\) == nullptr", "(c = GET_CHART_SCRATCH(&created)) == 0", 0), (r"c == nullptr", "c == 0", 0),
    (r"freeState\(scratch\);", "FREE_SCRATCH();", 0), (r"freeState\(temp\);", "FREE_TEMP();", 0), (r"std::size_t", "size_t", 0),
    # sampler region
    (r"c->psiInverse\(\*anear, ru\);", ";", 0), (r"unsigned int tries = ompl::magic::ATLAS_STATE_SPACE_SAMPLES;", "unsigned int tries = ATLAS_SAMPLES;", 0), (r"for \(size_t i = 0; i < k; \+\+i\)\s*uoffset\[i\] = ru\[i\] \+ rng_\.gaussian01\(\);", "DRAW_OFFSET();", 0),
    (r"uoffset \*= dist \* std::pow\(rng_\.uniform01\(\), 1\.0 / k\) / uoffset\.norm\(\);", "SCALE_OFFSET();", 0), (r"c->psi\(uoffset, \*astate\)", "PSI_INTO_STATE()", 0),
    (r"atlas_->copyState\(state, near\);", "COPY_NEAR_INTO_STATE();", 0), (r"space_->enforceBounds\(state\);", "ENFORCE_IN_BOUNDS();", 0),
]
ATL_STUBS = ["IS_SATISFIED_FROM", "ISVALID_FROM", "GET_CHART_FROM", "GET_CHART_SCRATCH", "GEO_CLEAR", "GEO_PUSH_FROM", "GEO_PUSH_SCRATCH", "DIST_TO", "DIST_STEP", "DIST_MISC", "CLONE_FROM_INTO_SCRATCH", "ALLOC_TEMP", "STEP_IN_CHART",
             "PSI_INTO_TEMP", "PHI_INTO_TEMP", "COPY_TEMP_TO_SCRATCH", "ISVALID_SCRATCH", "IN_POLYTOPE", "FREE_SCRATCH", "FREE_TEMP", "DRAW_OFFSET", "SCALE_OFFSET", "PSI_INTO_STATE", "COPY_NEAR_INTO_STATE", "ENFORCE_IN_BOUNDS"]
ATL_SRC = [
    dict(name="atlas_geodesic", file=ASS, sig=r"bool ompl::base::AtlasStateSpace::discreteGeodesic\(const State \*from, const State \*to, bool interpolate,\s*std::vector<ompl::base::State \*> \*geodesic\) const", rules=ATL_RULES, loops={1: """
__CPROVER_assigns(done, chartsCreated, dist, factor, c, cid_scr, cid_tmp, proj_ok_cid, step_a, step_b, step_val, m0_cid, m0_val, n_pushed, last_pushed_cid)
__CPROVER_loop_invariant(scr_alive && tmp_alive && allocs == 2 && frees == 0 && cid_scr != 0 && !done)
__CPROVER_loop_invariant(HAS_GEODESIC ==> (n_pushed >= 1 && last_pushed_cid == cid_scr))
"""}),
    dict(name="atlas_sampleNear", file=ASS, begin=r"c->psiInverse\(\*anear, ru\);\s*unsigned int tries = ompl::magic::ATLAS_STATE_SPACE_SAMPLES;", end=r"c->psiInverse\(\*astate, ru\);\s*if \(!c->inPolytope\(ru\)\)", rules=ATL_RULES, loops={1: """
__CPROVER_assigns(tries, cid_state, proj_ok_cid, psi_calls)
__CPROVER_loop_invariant(tries >= 1 && tries <= ATLAS_SAMPLES && psi_calls == (int)(ATLAS_SAMPLES - tries) && cid_near == 1 && (psi_calls == 0 ? (cid_state == 2 && proj_ok_cid == 0) : proj_ok_cid != cid_state))
__CPROVER_decreases(tries)
"""}),
]
UNITS.append(dict(name="c16_atlas_discreteGeodesic", template="C16/atlas.c", entry="h_atlas_geodesic", enforce=["atlas_discreteGeodesic"], replace=ATL_STUBS, flags=FLAGS + ["--object-bits", "10"], level="proof", backend="minisat", timeout=1200,
                  functions=["ompl::base::AtlasStateSpace::discreteGeodesic"], expect_loops=1, confirm=dict(unwind=4, defines={}), sources=ATL_SRC,
                  canaries=[dict(name="step_bound_against_the_wandering_budget", where="body:atlas_geodesic", rx=r"step >= lambda_ \* delta_", repl="step >= distMax"),
                            dict(name="psi_result_ignored", where="body:atlas_geodesic", rx=r"if \(!onManifold\)", repl="if (0)")]))
UNITS.append(dict(name="c16_atlas_sampleUniformNear", template="C16/atlas.c", entry="h_atlas_sampleNear", enforce=["atlas_sampleNear"], replace=ATL_STUBS, flags=FLAGS + ["--object-bits", "10"], level="proof", backend="minisat", timeout=600,
                  functions=["ompl::base::AtlasStateSampler::sampleUniformNear (projection retry loop)"], expect_loops=1, confirm=dict(unwind=52, defines={}), sources=ATL_SRC,
                  canaries=[dict(name="counter_wraps_fallback_never_fires", where="body:atlas_sampleNear", rx=r"--tries > 0", repl="tries-- > 0")]))

C16_CPPS = ["src/ompl/base/src/Constraint.cpp", "src/ompl/base/spaces/constraint/src/ProjectedStateSpace.cpp", "src/ompl/base/spaces/constraint/src/ConstrainedStateSpace.cpp"]
NATIVE = [
    dict(name="kf_projected_sampler_witness", driver="native/c16_native.cpp", link_ompl=True, unit_cpps=C16_CPPS, args=["kfbounds", 1, 200], known_id="projected-sampler-unchecked"),
    dict(name="c16_native_search", driver="native/c16_native.cpp", link_ompl=True, unit_cpps=C16_CPPS, args=lambda tier, seed: ["search", seed, 300 if tier == "quick" else 20000], timeout=1800),
]


def replay(ur, scratch, seed):
    """Search the real projection-based space for a failing input (native/c16_native.cpp search)."""
    from vf import native as N, cbmc as C
    exe = N.build_driver("native/c16_native.cpp", scratch, link_ompl=True, unit_cpps=C16_CPPS)
    r = C.run_cmd([exe, "search", str(seed), "3000"], 900, env=N.run_env())
    return dict(found=(r["rc"] == 1), driver="native/c16_native.cpp", args=["search", seed, 3000], link_ompl=True, unit_cpps=C16_CPPS, output=r["out"][-2500:])

TBF = "src/ompl/base/spaces/constraint/src/TangentBundleStateSpace.cpp"
TB_RULES = [(r"auto astate = state->as<StateType>\(\);", "", 0), (r"auto &&svc = si_->getStateValidityChecker\(\);", "", 0), (r"Eigen::VectorXd u\(k_\);", "", 0),
            (r"AtlasChart \*chart = getChart\(astate, true\);", "int chart = GET_CHART();", 0), (r"chart->psiInverse\(\*astate, u\);", "PSI_INVERSE();", 0), (r"chart->psi\(u, \*astate\)", "PSI()", 0), (r"svc->isValid\(state\)", "IS_VALID()", 0)]
UNITS.append(dict(name="c16_tangentbundle_project", template="C16/tb_project.c", mode="plain", entry="h_tb_project", flags=["--bounds-check", "--pointer-check", "--unsigned-overflow-check"], level="proof", backend="minisat", timeout=300,
                  functions=["ompl::base::TangentBundleStateSpace::project"],
                  needs=["tb_project"], sources=[dict(name="tb_project", file=TBF, sig=r"bool ompl::base::TangentBundleStateSpace::project\(State \*state\) const", rules=TB_RULES, loops={}),
                           dict(name="tb_geodesicInterpolate", file=TBF, sig=r"ompl::base::State \*ompl::base::TangentBundleStateSpace::geodesicInterpolate\(const std::vector<State \*> &geodesic,\s*const double t\) const", rules=[(r"auto state = ConstrainedStateSpace::geodesicInterpolate\(geodesic, t\)->as<StateType>\(\);", "int state = BASE_GEODESIC_INTERPOLATE();", 0), (r"!project\(state\)", "!TB_PROJECT(state)", 0), (r"geodesic\[0\]", "GEO0", 0)], loops={})],
                  canaries=[dict(name="convergence_verdict_dropped", where="body:tb_project", rx=r"if \(PSI\(\)\s*&& IS_VALID\(\)\)\s*return true;\s*return false;", repl="PSI(); return IS_VALID();")]))

TBI_RULES = [(r"auto state = ConstrainedStateSpace::geodesicInterpolate\(geodesic, t\)->as<StateType>\(\);", "int state = BASE_GEODESIC_INTERPOLATE();", 0), (r"!project\(state\)", "!TB_PROJECT(state)", 0), (r"geodesic\[0\]", "GEO0", 0)]
UNITS.append(dict(name="c16_tangentbundle_geodesicInterpolate", template="C16/tb_project.c", mode="plain", entry="h_tb_interpolate", flags=["--bounds-check", "--pointer-check", "--unsigned-overflow-check"], level="proof", backend="minisat", timeout=300,
                  functions=["ompl::base::TangentBundleStateSpace::geodesicInterpolate"], needs=["tb_geodesicInterpolate"],
                  sources=[dict(name="tb_project", file=TBF, sig=r"bool ompl::base::TangentBundleStateSpace::project\(State \*state\) const", rules=TB_RULES, loops={}),
                           dict(name="tb_geodesicInterpolate", file=TBF, sig=r"ompl::base::State \*ompl::base::TangentBundleStateSpace::geodesicInterpolate\(const std::vector<State \*> &geodesic,\s*const double t\) const", rules=TBI_RULES, loops={})],
                  canaries=[dict(name="unprojected_state_returned", where="body:tb_geodesicInterpolate", rx=r"return GEO0;", repl="return state;")]))

CONH = "src/ompl/base/Constraint.h"
CI_RULES = [(r"for \(const auto &constraint : constraints_\)\s*\{", "for (unsigned constraint = 0; constraint < ncons; ++constraint) {", 0),
            (r"constraint->function\(x, out\.segment\(i, constraint->getCoDimension\(\)\)\);", "MEMBER_FUNCTION(constraint, i, CODIM(constraint));", 0),
            (r"constraint->jacobian\(x, out\.block\(i, 0, constraint->getCoDimension\(\), n_\)\);", "MEMBER_JACOBIAN(constraint, i, 0, CODIM(constraint), n_);", 0),
            (r"constraint->getCoDimension\(\)", "CODIM(constraint)", 0), (r"setManifoldDimension\(", "SET_MANIFOLD_DIM(", 0), (r"constraints_\.push_back\(constraint\);", "CONS_PUSH(constraint);", 0)]
CI_SRC = [dict(name="ci_function", file=CONH, sig=r"void function\(const Eigen::Ref<const Eigen::VectorXd> &x, Eigen::Ref<Eigen::VectorXd> out\) const override", which=0, rules=CI_RULES, loops={"allow_uncontracted": True}),
          dict(name="ci_jacobian", file=CONH, sig=r"void jacobian\(const Eigen::Ref<const Eigen::VectorXd> &x, Eigen::Ref<Eigen::MatrixXd> out\) const override", which=0, rules=CI_RULES, loops={"allow_uncontracted": True}),
          dict(name="ci_addConstraint", file=CONH, sig=r"void addConstraint\(const ConstraintPtr &constraint\)", rules=CI_RULES, loops={})]
for _h, _can in (("ci_function", [dict(name="offset_not_advanced", where="body:ci_function", rx=r"i \+= CODIM\(constraint\);", repl="i += 1;")]), ("ci_jacobian", [dict(name="offset_advanced_by_the_ambient_dimension", where="body:ci_jacobian", rx=r"i \+= CODIM\(constraint\);", repl="i += n_;")]),
                 ("ci_add", [dict(name="dimension_not_lowered", where="body:ci_addConstraint", rx=r"SET_MANIFOLD_DIM\(k_ - CODIM\(constraint\)\);", repl="SET_MANIFOLD_DIM(k_);")])):
    UNITS.append(dict(name="c16_intersection_" + _h[3:], template="C16/intersection.c", mode="plain", entry="h_" + _h, sources=CI_SRC, flags=["--bounds-check", "--pointer-check", "--unsigned-overflow-check"], unwind=5, level="bounded", bound="<= 3 member constraints",
                      backend="minisat", timeout=300, functions=["ompl::base::ConstraintIntersection::" + ("addConstraint" if _h == "ci_add" else _h[3:])], canaries=_can))

ASSUMPTIONS = ["Constraint: function(), jacobian(), the SVD solve and Eigen's squaredNorm/allFinite are arbitrary (stubs); only which x they were computed for is tracked (ghost versions)",
               "a finite squared norm implies that every residual entry is finite (links project()'s success to isSatisfied())"]
TRUSTED = ["extraction rewrite tables of units/C16.py", "stub contracts in units/C16/*.c", "CBMC 6.11 DFCC + minisat"]
NOT_COVERED = ["that Newton's iteration converges, or that a state reported satisfied is geometrically on the manifold (numerical linear algebra)",
               "AtlasStateSpace beyond discreteGeodesic's admission logic and the sampler's retry loop (chart creation, polytopes, psiInverse/phi geometry), TangentBundleStateSpace (lazy geodesics), AtlasStateSampler::sampleUniform",
               "AtlasStateSampler::sampleUniformNear: enforceBounds is assumed to leave the projected state unchanged (it runs after the projection, the pattern of known finding projected-sampler-unchecked)"]
