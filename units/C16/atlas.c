/* C16: AtlasStateSpace::discreteGeodesic and AtlasStateSampler::sampleUniformNear, structurally (charts, psi/phi/psiInverse, polytopes are
 * arbitrary stubs; states are content ids).  Geodesic: a state is appended only if AtlasChart::psi reported it on the manifold, its measured
 * distance to the previously appended state is < lambda*delta; success means the last state was measured within delta of the target; the two
 * working states are freed once.  Sampler: the state handed back is the (on-manifold) near state or a point psi reported on the manifold,
 * after at most ATLAS_STATE_SPACE_SAMPLES-1 projections. */
#include <stdbool.h>
#include <stddef.h>
#include <float.h>
#define REACH(tag) __CPROVER_assert(0, "REACH " tag)
#define ATLAS_SAMPLES 50u
double delta_, lambda_, epsilon_, cos_alpha_, backoff_; size_t maxChartsPerExtension_;
unsigned cid_from, cid_to, cid_scr, cid_tmp; bool scr_alive, tmp_alive, HAS_GEODESIC;
unsigned n_pushed, last_pushed_cid, proj_ok_cid, step_a, step_b; double step_val; unsigned m0_cid; double m0_val; int allocs, frees;
#define FRESH(c) ((c) != 0 && (c) != cid_from && (c) != cid_to && (c) != __CPROVER_old(cid_scr) && (c) != __CPROVER_old(cid_tmp) && (c) != last_pushed_cid && (c) != __CPROVER_old(proj_ok_cid) && (c) != m0_cid && (c) != step_a && (c) != step_b)
bool IS_SATISFIED_FROM(void) __CPROVER_requires(1) __CPROVER_assigns();
bool ISVALID_FROM(void) __CPROVER_requires(1) __CPROVER_assigns();
int GET_CHART_FROM(void) __CPROVER_requires(1) __CPROVER_assigns();
int GET_CHART_SCRATCH(bool *created) __CPROVER_requires(scr_alive) __CPROVER_assigns(*created);
void GEO_CLEAR(void) __CPROVER_requires(HAS_GEODESIC) __CPROVER_assigns(n_pushed) __CPROVER_ensures(n_pushed == 0);
void GEO_PUSH_FROM(void) __CPROVER_requires(HAS_GEODESIC && n_pushed == 0) __CPROVER_assigns(n_pushed, last_pushed_cid) __CPROVER_ensures(n_pushed == 1 && last_pushed_cid == cid_from);
void GEO_PUSH_SCRATCH(void)
    /* C16.onmanifold only a state AtlasChart::psi reported on the manifold is appended */
    __CPROVER_requires(HAS_GEODESIC && scr_alive && proj_ok_cid == cid_scr)
    /* C16.step its distance to the previously appended state was measured and is below the step bound */
    __CPROVER_requires(step_a == last_pushed_cid && step_b == cid_scr && step_val < lambda_ * delta_)
    __CPROVER_requires(n_pushed >= 1)
    __CPROVER_assigns(n_pushed, last_pushed_cid) __CPROVER_ensures(n_pushed == (__CPROVER_old(n_pushed) < 3 ? __CPROVER_old(n_pushed) + 1 : 3) && last_pushed_cid == cid_scr);
double DIST_TO(unsigned c) __CPROVER_requires(c != 0) __CPROVER_assigns(m0_cid, m0_val) __CPROVER_ensures(__CPROVER_return_value >= 0.0 && m0_cid == c && m0_val == __CPROVER_return_value);
double DIST_STEP(void) __CPROVER_requires(scr_alive && tmp_alive) __CPROVER_assigns(step_a, step_b, step_val) __CPROVER_ensures(__CPROVER_return_value >= 0.0 && step_a == cid_scr && step_b == cid_tmp && step_val == __CPROVER_return_value);
double DIST_MISC(void) __CPROVER_requires(scr_alive) __CPROVER_assigns() __CPROVER_ensures(__CPROVER_return_value >= 0.0);
void CLONE_FROM_INTO_SCRATCH(void) __CPROVER_requires(!scr_alive) __CPROVER_assigns(scr_alive, cid_scr, allocs) __CPROVER_ensures(scr_alive && cid_scr == cid_from && allocs == __CPROVER_old(allocs) + 1);
void ALLOC_TEMP(void) __CPROVER_requires(!tmp_alive) __CPROVER_assigns(tmp_alive, cid_tmp, allocs) __CPROVER_ensures(tmp_alive && allocs == __CPROVER_old(allocs) + 1);
void STEP_IN_CHART(void) __CPROVER_requires(1) __CPROVER_assigns();
bool PSI_INTO_TEMP(void) __CPROVER_requires(tmp_alive) __CPROVER_assigns(cid_tmp, proj_ok_cid) __CPROVER_ensures(FRESH(cid_tmp) && (__CPROVER_return_value ? proj_ok_cid == cid_tmp : proj_ok_cid == __CPROVER_old(proj_ok_cid)));
void PHI_INTO_TEMP(void) __CPROVER_requires(tmp_alive) __CPROVER_assigns(cid_tmp) __CPROVER_ensures(FRESH(cid_tmp));
void COPY_TEMP_TO_SCRATCH(void) __CPROVER_requires(scr_alive && tmp_alive) __CPROVER_assigns(cid_scr) __CPROVER_ensures(cid_scr == cid_tmp);
bool ISVALID_SCRATCH(void) __CPROVER_requires(scr_alive) __CPROVER_assigns();
bool IN_POLYTOPE(void) __CPROVER_requires(1) __CPROVER_assigns();
void FREE_SCRATCH(void) __CPROVER_requires(scr_alive) __CPROVER_assigns(scr_alive, frees) __CPROVER_ensures(!scr_alive && frees == __CPROVER_old(frees) + 1);
void FREE_TEMP(void) __CPROVER_requires(tmp_alive) __CPROVER_assigns(tmp_alive, frees) __CPROVER_ensures(!tmp_alive && frees == __CPROVER_old(frees) + 1);

bool atlas_discreteGeodesic(bool interpolate)
__CPROVER_requires(delta_ > 0.0 && delta_ < 1e9 && lambda_ >= 1.0 && lambda_ < 1e9 && backoff_ > 0.0 && backoff_ < 1.0 && epsilon_ >= 0.0 && cos_alpha_ == cos_alpha_ && cid_from == 1 && cid_to == 2 && !scr_alive && !tmp_alive && allocs == 0 && frees == 0 && n_pushed == 0 && proj_ok_cid == 0 && m0_cid == 0 && last_pushed_cid == 0)
__CPROVER_assigns(cid_scr, cid_tmp, scr_alive, tmp_alive, n_pushed, last_pushed_cid, proj_ok_cid, step_a, step_b, step_val, m0_cid, m0_val, allocs, frees)
/* C16.reach success means the last state of the geodesic was measured to be within delta of the target */
__CPROVER_ensures(__CPROVER_return_value ==> (m0_val <= delta_ && m0_cid == (allocs == 0 ? cid_from : cid_scr)))
/* on success the list ends with that last state (a traversal that stops early leaves a valid prefix) */
__CPROVER_ensures((__CPROVER_return_value && HAS_GEODESIC) ==> (n_pushed >= 1 && (allocs == 0 ? last_pushed_cid == cid_from : last_pushed_cid == cid_scr)))
/* C16.mem both working states are freed exactly once on every path */
__CPROVER_ensures(!scr_alive && !tmp_alive && allocs == frees)
/*@BODY atlas_geodesic@*/
void h_atlas_geodesic(void) { bool ip; bool r = atlas_discreteGeodesic(ip); if (r && allocs == 0) REACH("already there"); if (r && n_pushed > 2) REACH("reached after several steps"); if (!r && n_pushed > 1) REACH("stopped early"); if (!r && allocs == 0) REACH("start not on the manifold"); }

/* ---- AtlasStateSampler::sampleUniformNear: the projection retry loop ---- */
unsigned cid_state, cid_near; int psi_calls;
void DRAW_OFFSET(void) __CPROVER_requires(1) __CPROVER_assigns();
void SCALE_OFFSET(void) __CPROVER_requires(1) __CPROVER_assigns();
bool PSI_INTO_STATE(void) __CPROVER_requires(psi_calls < 1000) __CPROVER_assigns(cid_state, proj_ok_cid, psi_calls)
    __CPROVER_ensures(cid_state != 0 && cid_state != cid_near && cid_state != __CPROVER_old(cid_state) && cid_state != __CPROVER_old(proj_ok_cid) && psi_calls == __CPROVER_old(psi_calls) + 1 && (__CPROVER_return_value ? proj_ok_cid == cid_state : proj_ok_cid == __CPROVER_old(proj_ok_cid)));
void COPY_NEAR_INTO_STATE(void) __CPROVER_requires(1) __CPROVER_assigns(cid_state) __CPROVER_ensures(cid_state == cid_near);
void ENFORCE_IN_BOUNDS(void) __CPROVER_requires(1) __CPROVER_assigns();   /* assumed: the projected state lies within the bounds (otherwise: known finding projected-sampler-unchecked, same pattern) */
void atlas_sampleNear(void)
__CPROVER_requires(cid_near == 1 && cid_state == 2 && proj_ok_cid == 0 && psi_calls == 0)
__CPROVER_assigns(cid_state, proj_ok_cid, psi_calls)
/* C16.sampled the state handed back is the near state or a point AtlasChart::psi reported on the manifold */
__CPROVER_ensures(cid_state == cid_near || proj_ok_cid == cid_state)
__CPROVER_ensures(psi_calls < (int)ATLAS_SAMPLES)
/*@BODY atlas_sampleNear@*/
void h_atlas_sampleNear(void) { atlas_sampleNear(); if (cid_state == cid_near) REACH("fell back to the near state"); else REACH("projected sample"); }
