/* C16: ProjectedStateSpace::discreteGeodesic -- "every state on a computed discrete geodesic satisfies the constraint, consecutive states
 * are no farther apart than the step bound, a geodesic that reports success ends within one step size (delta) of the target".
 * States are content ids (two working states previous/scratch + from/to); the obligations sit in the PRECONDITION of the push stub:
 * a state is appended to the geodesic only if Constraint::project returned true for exactly this content, its distance to the previously
 * appended state was measured and is <= lambda*delta.  Unbounded (loop contract on the do-while). */
#include <stdbool.h>
#include <stddef.h>
#define REACH(tag) __CPROVER_assert(0, "REACH " tag)
double delta_, lambda_;
unsigned cid_from, cid_to, cid_prev, cid_scr; bool prev_alive, scr_alive, HAS_GEODESIC;
unsigned n_pushed, last_pushed_cid, proj_ok_cid, step_a, step_b; double step_val;
unsigned m0_cid, m1_cid; double m0_val, m1_val; int allocs, frees; unsigned valid_checked_cid;
void GEO_CLEAR(void) __CPROVER_requires(HAS_GEODESIC) __CPROVER_assigns(n_pushed) __CPROVER_ensures(n_pushed == 0);
void GEO_PUSH_FROM(void) __CPROVER_requires(HAS_GEODESIC && n_pushed == 0) __CPROVER_assigns(n_pushed, last_pushed_cid) __CPROVER_ensures(n_pushed == 1 && last_pushed_cid == cid_from);
void GEO_PUSH_SCRATCH(void)
    /* C16.onmanifold only a successfully projected state is appended */
    __CPROVER_requires(HAS_GEODESIC && scr_alive && proj_ok_cid == cid_scr)
    /* C16.step its distance to the previously appended state was measured and is within the step bound */
    __CPROVER_requires(step_a == last_pushed_cid && step_b == cid_scr && step_val <= lambda_ * delta_)
    __CPROVER_requires(n_pushed >= 1)
    __CPROVER_assigns(n_pushed, last_pushed_cid) __CPROVER_ensures(n_pushed == (__CPROVER_old(n_pushed) < 3 ? __CPROVER_old(n_pushed) + 1 : 3) && last_pushed_cid == cid_scr);   /* n_pushed saturates at 3: only 0, 1, 2, "more" matter */
double DIST_TO(unsigned c) __CPROVER_requires(c != 0) __CPROVER_assigns(m0_cid, m0_val, m1_cid, m1_val)
    __CPROVER_ensures(__CPROVER_return_value >= 0.0 && m0_cid == c && m0_val == __CPROVER_return_value && m1_cid == __CPROVER_old(m0_cid) && m1_val == __CPROVER_old(m0_val));
double DIST_STEP(void) __CPROVER_requires(prev_alive && scr_alive) __CPROVER_assigns(step_a, step_b, step_val)
    __CPROVER_ensures(__CPROVER_return_value >= 0.0 && step_a == cid_prev && step_b == cid_scr && step_val == __CPROVER_return_value);
void CLONE_FROM_INTO_PREVIOUS(void) __CPROVER_requires(!prev_alive) __CPROVER_assigns(prev_alive, cid_prev, allocs) __CPROVER_ensures(prev_alive && cid_prev == cid_from && allocs == __CPROVER_old(allocs) + 1);
void ALLOC_SCRATCH(void) __CPROVER_requires(!scr_alive) __CPROVER_assigns(scr_alive, cid_scr, allocs) __CPROVER_ensures(scr_alive && cid_scr == 0 && allocs == __CPROVER_old(allocs) + 1);
#define FRESH(c) ((c) != 0 && (c) != cid_from && (c) != cid_to && (c) != cid_prev && (c) != last_pushed_cid && (c) != __CPROVER_old(cid_scr) && (c) != __CPROVER_old(proj_ok_cid) && (c) != m0_cid && (c) != m1_cid && (c) != step_a && (c) != step_b)
/* a written state gets a content id different from every id the ghost state currently mentions */
void INTERPOLATE_INTO_SCRATCH(double t) __CPROVER_requires(prev_alive && scr_alive && t == t) __CPROVER_assigns(cid_scr)
    __CPROVER_ensures(FRESH(cid_scr));
bool PROJECT_SCRATCH(void) __CPROVER_requires(scr_alive) __CPROVER_assigns(cid_scr, proj_ok_cid)
    __CPROVER_ensures(FRESH(cid_scr) && (__CPROVER_return_value ? proj_ok_cid == cid_scr : proj_ok_cid == __CPROVER_old(proj_ok_cid)));
bool ISVALID_SCRATCH(void) __CPROVER_requires(scr_alive) __CPROVER_assigns(valid_checked_cid) __CPROVER_ensures(valid_checked_cid == cid_scr);
void COPY_SCRATCH_TO_PREVIOUS(void) __CPROVER_requires(prev_alive && scr_alive) __CPROVER_assigns(cid_prev) __CPROVER_ensures(cid_prev == cid_scr);
void FREE_SCRATCH(void) __CPROVER_requires(scr_alive) __CPROVER_assigns(scr_alive, frees) __CPROVER_ensures(!scr_alive && frees == __CPROVER_old(frees) + 1);
void FREE_PREVIOUS(void) __CPROVER_requires(prev_alive) __CPROVER_assigns(prev_alive, frees) __CPROVER_ensures(!prev_alive && frees == __CPROVER_old(frees) + 1);

bool pss_discreteGeodesic(bool interpolate)
__CPROVER_requires(delta_ > 0.0 && lambda_ >= 1.0 && lambda_ < 1e9 && delta_ < 1e9 && cid_from == 1 && cid_to == 2 && !prev_alive && !scr_alive && allocs == 0 && frees == 0 && n_pushed == 0 && proj_ok_cid == 0 && m0_cid == 0)
__CPROVER_assigns(cid_prev, cid_scr, prev_alive, scr_alive, n_pushed, last_pushed_cid, proj_ok_cid, step_a, step_b, step_val, m0_cid, m1_cid, m0_val, m1_val, allocs, frees, valid_checked_cid)
/* C16.reach success means the last state of the geodesic was measured to be within delta of the target */
__CPROVER_ensures(__CPROVER_return_value ==> ((m0_cid == (n_pushed <= 1 && !prev_alive && allocs == 0 ? cid_from : cid_prev) && m0_val <= delta_) || (m1_cid == cid_prev && m1_val <= delta_)))
__CPROVER_ensures(HAS_GEODESIC ==> (n_pushed >= 1 && (allocs == 0 ? last_pushed_cid == cid_from : last_pushed_cid == cid_prev)))
/* C16.mem both working states are freed exactly once on every path */
__CPROVER_ensures(!prev_alive && !scr_alive && allocs == frees)
/*@BODY geodesic@*/

void h_geodesic(void)
{
    bool ip; bool r = pss_discreteGeodesic(ip);
    if (r && allocs == 0) REACH("already there"); if (r && n_pushed > 2) REACH("reached after several steps"); if (!r && n_pushed > 1) REACH("stopped early"); if (!r && !HAS_GEODESIC) REACH("no list requested");
}
