/* C16: ConstrainedStateSpace::interpolate / geodesicInterpolate -- "every state produced by interpolation satisfies the constraint":
 * the state written is a copy of `from` or of one of the states the geodesic traversal appended (each of which is on the manifold by the
 * contract of discreteGeodesic, unit c16_projected_discreteGeodesic), the copy is taken before the traversal's states are freed, each of
 * them is freed exactly once, the distance buffer is released once on every path and never indexed out of range.
 * Bounded: geodesics of <= GEOMAX states (the traversal itself is unbounded in the other unit). */
#include <stdbool.h>
#include <stddef.h>
#include <math.h>
#include <float.h>
#ifndef GEOMAX
#define GEOMAX 3
#endif
#define REACH(tag) __CPROVER_assert(0, "REACH " tag)
typedef unsigned SRef;
#define FROM 1u
#define TO 2u
#define OUT 3u
SRef geo[GEOMAX]; unsigned geo_n; bool alive[4 + GEOMAX]; unsigned cid[4 + GEOMAX]; int frees;
double DBUF[GEOMAX]; int d_live; unsigned d_n;
bool nondet_bool(void); unsigned nondet_unsigned(void); double nondet_double(void);
static bool DISCRETE_GEODESIC(void)
{
    unsigned n = nondet_unsigned(); __CPROVER_assume(n >= 1 && n <= GEOMAX); geo_n = n;
    for (unsigned k = 0; k < GEOMAX; k++) if (k < n) { geo[k] = 4 + k; alive[4 + k] = 1; cid[4 + k] = k == 0 ? cid[FROM] : 100 + k; }
    return nondet_bool();
}
static SRef GEO_AT(unsigned i) { __CPROVER_assert(i < geo_n, "C16.range geodesic index in range"); return geo[i]; }
static double *D_NEW(unsigned n) { __CPROVER_assert(n <= GEOMAX && d_live == 0, "one buffer"); d_live = 1; d_n = n; return DBUF; }
static void D_DELETE(double *d) { __CPROVER_assert(d == DBUF && d_live == 1, "C16.mem the distance buffer is released exactly once"); d_live = 0; }
static double DIST_IDX(unsigned a, unsigned b) { __CPROVER_assert(a < geo_n && b < geo_n, "C16.range geodesic index in range"); double v = nondet_double(); __CPROVER_assume(v >= 0.0 && v <= 1e6); return v; }
static void COPYSTATE(SRef dst, SRef src) { __CPROVER_assert(alive[dst] && alive[src], "C16.mem the chosen state is copied while it is still allocated"); cid[dst] = cid[src]; }
static void FREESTATE(SRef s) { __CPROVER_assert(s >= 4 && alive[s], "C16.mem a traversal state is freed exactly once"); alive[s] = 0; frees++; }

SRef css_geodesicInterpolate(double t)
/*@BODY geodesicInterpolate@*/
void css_interpolate(SRef from, SRef to, double t, SRef state)
/*@BODY interpolate@*/

void h_interpolate(void)
{
    alive[FROM] = alive[TO] = alive[OUT] = 1; for (unsigned k = 4; k < 4 + GEOMAX; k++) alive[k] = 0;
    cid[FROM] = 11; cid[TO] = 12; cid[OUT] = 13; frees = 0; d_live = 0; geo_n = 0;
    double t = nondet_double();
    css_interpolate(FROM, TO, t, OUT);
    bool from_geo = 0; for (unsigned k = 0; k < GEOMAX; k++) if (k < geo_n && cid[OUT] == cid[geo[k]]) from_geo = 1;
    __CPROVER_assert(cid[OUT] == cid[FROM] || from_geo, "C16.interp the interpolated state is a copy of `from` or of a state the traversal appended");
    __CPROVER_assert(frees == (int)geo_n && d_live == 0, "C16.mem every traversal state freed once, no buffer left");
    __CPROVER_assert(alive[FROM] && alive[TO] && alive[OUT], "arguments stay allocated");
    if (cid[OUT] != cid[FROM]) REACH("interior or last state chosen"); if (geo_n == GEOMAX) REACH("longest geodesic");
}
