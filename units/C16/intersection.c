/* C16 -- ConstraintIntersection (Constraint.h): the stacked constraint function / Jacobian write constraint i's rows at offset sum_{j<i} codim_j, with exactly
 * codim_i rows, so that the stacked residual is zero exactly when every member's residual is (segments neither overlap nor leave gaps); the manifold dimension
 * shrinks by each member's co-dimension.  Bounded: <= 3 member constraints (co-dimension <= 4 each). */
#include <stdbool.h>
#include <stddef.h>
#define NCN 3
#define REACH(msg) __CPROVER_assert(0, "REACH " msg)
unsigned ncons; unsigned COD[NCN]; unsigned n_, k_;
unsigned seg_off[NCN], seg_len[NCN], seg_cols[NCN]; unsigned calls;
static unsigned CODIM(unsigned c) { return COD[c]; }
static void MEMBER_FUNCTION(unsigned c, unsigned off, unsigned len) { __CPROVER_assert(c < NCN && c == calls, "members are visited in order, once"); seg_off[c] = off; seg_len[c] = len; calls++; }
static void MEMBER_JACOBIAN(unsigned c, unsigned off, unsigned col0, unsigned rows, unsigned cols) { __CPROVER_assert(c < NCN && c == calls && col0 == 0, "members are visited in order, once; the block starts at column 0"); seg_off[c] = off; seg_len[c] = rows; seg_cols[c] = cols; calls++; }
static void SET_MANIFOLD_DIM(unsigned k) { k_ = k; }
static void CONS_PUSH(unsigned c) { __CPROVER_assert(ncons < NCN, "model capacity"); ncons++; }
void ci_function(void)
/*@BODY ci_function@*/
void ci_jacobian(void)
/*@BODY ci_jacobian@*/
void ci_addConstraint(unsigned constraint)
/*@BODY ci_addConstraint@*/
static void check_stacking(bool jac)
{
    __CPROVER_assert(calls == ncons, "every member constraint contributes once");
    unsigned off = 0;
    for (unsigned c = 0; c < NCN; c++) if (c < ncons)
    {
        __CPROVER_assert(seg_off[c] == off && seg_len[c] == COD[c], "C16.stack member i's rows start where member i-1's end and are exactly its co-dimension many");
        if (jac) __CPROVER_assert(seg_cols[c] == n_, "each Jacobian block spans all ambient coordinates");
        off += COD[c];
    }
}
void h_ci_function(void) { __CPROVER_assume(ncons <= NCN); for (unsigned c = 0; c < NCN; c++) __CPROVER_assume(COD[c] >= 1 && COD[c] <= 4); calls = 0; ci_function(); check_stacking(false); if (ncons == 3) REACH("three members"); }
void h_ci_jacobian(void) { __CPROVER_assume(ncons <= NCN && n_ <= 20); for (unsigned c = 0; c < NCN; c++) __CPROVER_assume(COD[c] >= 1 && COD[c] <= 4); calls = 0; ci_jacobian(); check_stacking(true); if (ncons == 3) REACH("three members"); }
void h_ci_add(void)
{
    __CPROVER_assume(ncons < NCN && k_ <= 20); unsigned c = ncons; __CPROVER_assume(COD[c] >= 1 && COD[c] <= 4 && COD[c] <= k_); unsigned k0 = k_, n0 = ncons;
    ci_addConstraint(c);
    __CPROVER_assert(k_ == k0 - COD[c] && ncons == n0 + 1, "C16.dim adding a member lowers the manifold dimension by that member's co-dimension and records the member"); REACH("added");
}
