/* C16: ConstrainedMotionValidator::checkMotion (both forms) -- "motion validity = the target satisfies the constraint AND the geodesic
 * reached it"; the states the traversal listed are each freed exactly once; when the traversal stopped early the reported last valid
 * state is a copy of the last traversed (on-manifold) state.  Bounded: traversals listing <= SLMAX states. */
#include <stdbool.h>
#include <stddef.h>
#ifndef SLMAX
#define SLMAX 3
#endif
#define NIL 0u
#define REACH(tag) __CPROVER_assert(0, "REACH " tag)
typedef unsigned SRef;
#define S1 1u
#define S2 2u
#define LV 3u
SRef sl[SLMAX]; size_t sl_n; bool alive[4 + SLMAX]; unsigned cid[4 + SLMAX]; int frees; bool REACHED, SAT_S2; int sat_calls, geo_calls;
SRef LV_FIRST; double LV_SECOND;
bool nondet_bool(void); unsigned nondet_unsigned(void); double nondet_double(void);
static bool IS_SATISFIED(SRef s) { __CPROVER_assert(s == S2, "the constraint is evaluated on the target"); sat_calls++; return SAT_S2; }
static bool DISCRETE_GEODESIC_NOLIST(void) { geo_calls++; return REACHED; }
static bool DISCRETE_GEODESIC_LIST(void)
{
    geo_calls++; unsigned n = nondet_unsigned(); __CPROVER_assume(n <= SLMAX && (REACHED ? n >= 1 : 1)); sl_n = n;
    for (unsigned k = 0; k < SLMAX; k++) if (k < n) { sl[k] = 4 + k; alive[4 + k] = 1; cid[4 + k] = k == 0 ? cid[S1] : 100 + k; }
    return REACHED;
}
static SRef SL_AT(size_t i) { __CPROVER_assert(i < sl_n, "C16.range state list index in range"); return sl[i]; }
static void COPYSTATE(SRef dst, SRef src) { __CPROVER_assert(dst != NIL && alive[dst] && alive[src], "C16.mem copy between allocated states"); cid[dst] = cid[src]; }
static void FREESTATE(SRef s) { __CPROVER_assert(s >= 4 && alive[s], "C16.mem a listed state is freed exactly once"); alive[s] = 0; frees++; }
static double DIST(SRef a, SRef b) { __CPROVER_assert(alive[a] && alive[b], "C16.mem distance of allocated states"); double v = nondet_double(); __CPROVER_assume(v >= 0.0 && v <= 1e6 && (a == LV && b == S2 ? v >= 1e-9 : 1)); return v; }

bool cmv_checkMotion(SRef s1, SRef s2)
/*@BODY checkMotion@*/
bool cmv_checkMotion_lv(SRef s1, SRef s2)
/*@BODY checkMotion_lv@*/

static void init(void) { alive[S1] = alive[S2] = alive[LV] = 1; for (unsigned k = 4; k < 4 + SLMAX; k++) alive[k] = 0; cid[S1] = 11; cid[S2] = 12; cid[LV] = 13; frees = 0; sl_n = 0; sat_calls = geo_calls = 0; }
void h_checkMotion(void)
{
    init(); bool r = cmv_checkMotion(S1, S2);
    __CPROVER_assert(r == (SAT_S2 && REACHED), "C16.motion a motion is valid exactly when the target satisfies the constraint and the geodesic reached it");
    if (r) REACH("valid"); else REACH("invalid");
}
void h_checkMotion_lv(void)
{
    init(); LV_FIRST = nondet_bool() ? LV : NIL; LV_SECOND = -1.0;
    bool r = cmv_checkMotion_lv(S1, S2);
    __CPROVER_assert(r == (SAT_S2 && REACHED && sl_n > 0), "C16.motion a motion is valid exactly when the target satisfies the constraint and the geodesic reached it");
    __CPROVER_assert(frees == (int)sl_n, "C16.mem every listed state is freed exactly once");
    if (!REACHED && LV_FIRST != NIL) { bool listed = 0; for (unsigned k = 0; k < SLMAX; k++) if (k + 1 == sl_n && cid[LV] == (k == 0 ? cid[S1] : 100 + k)) listed = 1;
        __CPROVER_assert(sl_n == 0 ? cid[LV] == cid[S1] : listed, "C16.lastvalid the last valid state is the last state the traversal reached (or the start)"); }
    if (REACHED && LV_FIRST != NIL) __CPROVER_assert(cid[LV] == 13, "a reached motion leaves the last-valid state alone");
    if (sl_n == 0) REACH("empty list"); if (!REACHED && sl_n == SLMAX) REACH("stopped early"); if (r) REACH("valid");
}
