/* C16: Constraint::project (Newton projection) and Constraint::isSatisfied, structurally: the linear algebra is behind stubs
 * (function, jacobian, SVD solve, squaredNorm are arbitrary), what is proved is the bookkeeping the property rests on:
 * project() reports success only when the LAST residual it looked at was computed at the x it returns and its squared norm is below
 * tolerance^2; every Newton step uses the Jacobian and the residual of the current x; at most maxIterations_ steps are taken.
 * Ghost: xver = version of x, fver/jver = version of x at which f / j were computed. */
#include <stdbool.h>
#include <stddef.h>
#define REACH(tag) __CPROVER_assert(0, "REACH " tag)
unsigned maxIterations_; double tolerance_;
unsigned xver, fver, jver, steps; double last_norm; unsigned last_norm_ver; bool F_FINITE;
double nondet_double(void);
void FUNCTION(void) __CPROVER_requires(1) __CPROVER_assigns(fver) __CPROVER_ensures(fver == xver);
void JACOBIAN(void) __CPROVER_requires(1) __CPROVER_assigns(jver) __CPROVER_ensures(jver == xver);
double SQNORM(void) __CPROVER_requires(1) __CPROVER_assigns(last_norm, last_norm_ver)
    __CPROVER_ensures(last_norm_ver == fver && (last_norm == __CPROVER_return_value || (last_norm != last_norm && __CPROVER_return_value != __CPROVER_return_value)));
void NEWTON_STEP(void)
    /* C16.step a Newton step solves with the Jacobian and the residual of the current x */
    __CPROVER_requires(jver == xver && fver == xver && xver < 0xFFFFFFFFu && steps < 0xFFFFFFFFu)
    __CPROVER_assigns(xver, steps) __CPROVER_ensures(xver == __CPROVER_old(xver) + 1 && steps == __CPROVER_old(steps) + 1);
/* a Newton step written in two halves (solve, then apply) -- the same contract split */
bool step_pending;
void SOLVE_STEP(void) __CPROVER_requires(jver == xver && fver == xver) __CPROVER_assigns(step_pending) __CPROVER_ensures(step_pending);
double DXNORM(void) __CPROVER_requires(step_pending) __CPROVER_assigns() __CPROVER_ensures(__CPROVER_return_value >= 0.0);
void APPLY_STEP(void) __CPROVER_requires(step_pending && xver < 0xFFFFFFFFu && steps < 0xFFFFFFFFu) __CPROVER_assigns(xver, steps, step_pending) __CPROVER_ensures(xver == __CPROVER_old(xver) + 1 && steps == __CPROVER_old(steps) + 1 && !step_pending);
bool ALLFINITE(void) __CPROVER_requires(1) __CPROVER_assigns() __CPROVER_ensures(__CPROVER_return_value == F_FINITE);
double SQ_TOL;   /* the square of the tolerance: the multiplication is a trusted operation here (two copies of a double multiplier are not proved equal by SAT in reasonable time) */
double SQUARE(double t) __CPROVER_requires(t == tolerance_) __CPROVER_assigns() __CPROVER_ensures(__CPROVER_return_value == SQ_TOL);

bool constraint_project(void)
__CPROVER_requires(xver == 0 && steps == 0 && tolerance_ == tolerance_)
__CPROVER_assigns(xver, fver, jver, steps, last_norm, last_norm_ver, step_pending)
/* C16.project success means: the residual last looked at belongs to the returned x and is below the tolerance */
__CPROVER_ensures(__CPROVER_return_value ==> (last_norm_ver == xver && last_norm < tolerance_ * tolerance_))
/* bounded work: at most maxIterations_ Newton steps */
__CPROVER_ensures(steps <= maxIterations_ && xver == steps)
/*@BODY project@*/

bool constraint_isSatisfied(void)
__CPROVER_requires(tolerance_ == tolerance_)
__CPROVER_assigns(fver, last_norm, last_norm_ver)
/* C16.satisfied the verdict is about the residual of exactly this x: all finite and squared norm within tolerance^2 */
__CPROVER_ensures(fver == xver && (__CPROVER_return_value ==> (F_FINITE && last_norm_ver == xver && last_norm <= tolerance_ * tolerance_)))
__CPROVER_ensures((F_FINITE && last_norm_ver == xver && last_norm <= tolerance_ * tolerance_) ==> __CPROVER_return_value)
/*@BODY isSatisfied@*/

/* ---- AtlasChart::psi: the same Newton scheme on a chart (residual b of the stacked system, matrix A) ---- */
bool chart_psi(void)
__CPROVER_requires(xver == 0 && steps == 0 && tolerance_ == tolerance_ && SQ_TOL == SQ_TOL)
__CPROVER_assigns(xver, fver, jver, steps, last_norm, last_norm_ver, step_pending)
/* C16.project success means: the residual last looked at belongs to the returned point and is below the constraint's tolerance squared */
__CPROVER_ensures(__CPROVER_return_value ==> (last_norm_ver == xver && last_norm < SQ_TOL))
__CPROVER_ensures(steps <= maxIterations_ && xver == steps)
/*@BODY psi@*/
void h_psi(void) { bool r = chart_psi(); if (r && steps == 0) REACH("initial guess on the manifold"); if (r && steps > 1) REACH("converged"); if (!r && steps == maxIterations_ && steps > 0) REACH("iteration cap"); }

void h_project(void) { bool r = constraint_project(); if (r && steps == 0) REACH("already on the manifold"); if (r && steps > 1) REACH("converged"); if (!r && steps == maxIterations_ && steps > 0) REACH("iteration cap"); if (!r && steps < maxIterations_) REACH("residual not a number or exactly at the tolerance"); }
void h_isSatisfied(void) { bool r = constraint_isSatisfied(); if (r) REACH("satisfied"); else REACH("not satisfied"); }
