/* C16: ProjectedStateSampler::sampleUniform / sampleUniformNear / sampleGaussian -- "every sampled state satisfies the constraint".
 * The obligation: the state handed back is one for which Constraint::project reported success (content ids; project and enforceBounds may
 * rewrite the state).  On the unchanged tree this FAILS in two ways (known finding projected-sampler-unchecked, native witness
 * c16_native kfbounds / kffail): the result of project() is ignored, and enforceBounds() runs AFTER the projection and clamps a projected
 * state that lies outside the bounds off the manifold.  With -DKF_PROJECTED_SAMPLER the zone of the finding is excluded (projection succeeds,
 * projected state within bounds) and the remaining obligation is that the sampler returns exactly the projected state. */
#include <stdbool.h>
#define REACH(tag) __CPROVER_assert(0, "REACH " tag)
unsigned cid_state, proj_ok_cid, sampled_cid; int wrapped_calls, project_calls, enforce_calls;
bool nondet_bool(void);
static void WRAPPED_SAMPLE(void) { wrapped_calls++; cid_state = 10u + (unsigned)wrapped_calls; sampled_cid = cid_state; }
static bool PROJECT(void)
{
    __CPROVER_assert(cid_state == sampled_cid && wrapped_calls >= 1, "the freshly sampled state is what gets projected");
    project_calls++; bool r = nondet_bool();
#ifdef KF_PROJECTED_SAMPLER
    __CPROVER_assume(r);
#endif
    cid_state = 20u + (unsigned)project_calls; if (r) proj_ok_cid = cid_state; return r;
}
static void ENFORCE(void)
{
    enforce_calls++; bool inb = nondet_bool();
#ifdef KF_PROJECTED_SAMPLER
    __CPROVER_assume(inb);
#endif
    if (!inb) cid_state = 30u + (unsigned)enforce_calls;     /* clamping rewrites the state */
}
void pss_sampleUniform(void)
/*@BODY sampleUniform@*/
void pss_sampleUniformNear(double distance)
/*@BODY sampleUniformNear@*/
void pss_sampleGaussian(double stdDev)
/*@BODY sampleGaussian@*/
static void reset(void) { cid_state = 1; proj_ok_cid = 0; sampled_cid = 0; wrapped_calls = project_calls = enforce_calls = 0; }
void h_samplers(void)
{
    double d;
    reset(); pss_sampleUniform();
    __CPROVER_assert(proj_ok_cid == cid_state, "C16.sampled sampleUniform returns a state that project() reported on the manifold");
    reset(); pss_sampleUniformNear(d);
    __CPROVER_assert(proj_ok_cid == cid_state, "C16.sampled sampleUniformNear returns a state that project() reported on the manifold");
    reset(); pss_sampleGaussian(d);
    __CPROVER_assert(proj_ok_cid == cid_state, "C16.sampled sampleGaussian returns a state that project() reported on the manifold");
    __CPROVER_assert(wrapped_calls == 1 && project_calls == 1, "one sample, one projection");
    REACH("sampled");
}
