/* C16 -- TangentBundleStateSpace::project: the single gate through which lazily computed (tangent-space) states are put onto the manifold.  It reports
 * success only if the chart's psi() reported convergence FOR THE CONTENT THE STATE HOLDS ON RETURN and the validity checker accepted that content. */
#include <stdbool.h>
#include <stddef.h>
#define REACH(msg) __CPROVER_assert(0, "REACH " msg)
bool nondet_bool(void);
unsigned cid_state, cid_next; bool psi_ok; unsigned psi_ok_cid, valid_cid; bool valid_ok; unsigned psiinv_cid; bool chart_fetched;
static int GET_CHART(void) { chart_fetched = true; return 1; }
static void PSI_INVERSE(void) { __CPROVER_assert(chart_fetched, "chart of the state"); psiinv_cid = cid_state; }
static bool PSI(void) { __CPROVER_assert(psiinv_cid == cid_state, "psi starts from the chart coordinates of this state"); cid_state = ++cid_next; psi_ok = nondet_bool(); psi_ok_cid = cid_state; return psi_ok; }
static bool IS_VALID(void) { valid_ok = nondet_bool(); valid_cid = cid_state; return valid_ok; }
bool tb_project(void)
/*@BODY tb_project@*/
void h_tb_project(void)
{
    cid_next = 10; cid_state = 5; psi_ok = false; valid_ok = false; psi_ok_cid = 0; valid_cid = 0; chart_fetched = false; psiinv_cid = 0;
    bool r = tb_project();
    if (r) { __CPROVER_assert(psi_ok && psi_ok_cid == cid_state, "C16.manifold success means psi() converged for the content the state now holds");
             __CPROVER_assert(valid_ok && valid_cid == cid_state, "C16.valid ... and the validity checker accepted that content"); REACH("projected"); }
    else REACH("rejected");
}
/* ---- TangentBundleStateSpace::geodesicInterpolate: the lazily interpolated state is handed out only after project() accepted it; otherwise the first
 * state of the geodesic (a state that is on the manifold: discreteGeodesic starts from a satisfied `from`) is returned. ---- */
int base_interp_ret, GEO0; bool PROJ_RET; int projected; unsigned proj_calls;
static int BASE_GEODESIC_INTERPOLATE(void) { return base_interp_ret; }
static bool TB_PROJECT(int st) { proj_calls++; projected = st; return PROJ_RET; }
int tb_geodesicInterpolate(void)
/*@BODY tb_geodesicInterpolate@*/
void h_tb_interpolate(void)
{
    __CPROVER_assume(base_interp_ret != GEO0); proj_calls = 0;
    int r = tb_geodesicInterpolate();
    __CPROVER_assert(proj_calls == 1 && projected == base_interp_ret, "the lazily interpolated state goes through project()");
    __CPROVER_assert(PROJ_RET ? r == base_interp_ret : r == GEO0, "C16.lazy the interpolated state is returned only if it was projected and validated, otherwise the start of the geodesic");
    if (PROJ_RET) REACH("projected"); else REACH("fallback");
}
