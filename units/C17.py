"""C17 -- path post-processing preserves endpoints, validity and never worsens cost (reduced scope: densification counts/order)."""
PROPERTY = "C17"
LEVEL = "proof"
PG = "src/ompl/geometric/src/PathGeometric.cpp"
FLAGS = ["--bounds-check", "--pointer-check", "--signed-overflow-check", "--conversion-check", "--div-by-zero-check", "--no-malloc-may-fail", "--object-bits", "12"]
IR = [
    (r"double remainingLength = length\(\);", "double remainingLength = DIST();", 0),
    (r"std::vector<base::State \*> newStates;", "", 0),
    (r"base::State \*s1 = states_\[i\];", "size_t s1 = (size_t)i;", 0), (r"base::State \*s2 = states_\[i \+ 1\];", "size_t s2 = (size_t)i + 1;", 0),
    (r"newStates\.push_back\(s1\);", "NS_PUSH_ORIG(s1);", 0), (r"newStates\.push_back\(states_\[n1\]\);", "NS_PUSH_ORIG((size_t)n1);", 0),
    (r"si_->distance\(s1, s2\)", "DIST()", 0),
    (r"\(int\)floor\(0\.5 \+ \(double\)count \* segmentLength / remainingLength\)", "FLOOR_INT()", 0),
    (r"std::vector<base::State \*> block;\s*si_->getMotionStates\(s1, s2, block, ns, false, true\);\s*newStates\.insert\(newStates\.end\(\), block\.begin\(\), block\.end\(\)\);", "newStates_size += getMotionStates_stub(ns);", 0),
    (r"states_\.swap\(newStates\);", "states__size = newStates_size;", 0),
    (r"states_\.size\(\)", "states__size", 0),
]
SR = [
    (r"std::vector<base::State \*> newStates\(1, states_\[0\]\);", "NS_PUSH_ORIG(0);", 0),
    (r"base::State \*temp = si_->allocState\(\);\s*si_->getStateSpace\(\)->interpolate\(newStates\.back\(\), states_\[i\], 0\.5, temp\);\s*newStates\.push_back\(temp\);", "NS_PUSH_NEW();", 0),
    (r"newStates\.push_back\(states_\[i\]\);", "NS_PUSH_ORIG((size_t)i);", 0),
    (r"states_\.swap\(newStates\);", "states__size = newStates_size;", 0), (r"states_\.size\(\)", "states__size", 0),
]
CR = [
    (r"if \(!si_->isSetup\(\)\)\s*si_->setup\(\);", "", 0),
    (r"si_->isValid\(states_\[0\]\)", "isValid0()", 0),
    (r"si_->checkMotion\(states_\[j\], states_\[j \+ 1\]\)", "checkMotionIdx((size_t)j, (size_t)j + 1)", 0),
    (r"states_\.size\(\)", "states__size", 0),
]
SOURCES = [
    dict(name="interpolate", file=PG, sig=r"void ompl::geometric::PathGeometric::interpolate\(unsigned int requestCount\)", rules=IR, loops={1: """
__CPROVER_assigns(i, count, newStates_size, countG, posG, remainingLength)
__CPROVER_loop_invariant(0 <= i && i <= n1 && n1 == (int)states__size - 1)
__CPROVER_loop_invariant(newStates_size <= requestCount && newStates_size + count == requestCount && newStates_size >= (size_t)i && (i == 0 ==> newStates_size == 0))
__CPROVER_loop_invariant(count >= states__size - i)
__CPROVER_loop_invariant(i == n1 ==> count == 1)
__CPROVER_loop_invariant(G < (size_t)i ? (countG == 1 && posG >= G && posG < newStates_size && (G != 0 || posG == 0)) : countG == 0)
__CPROVER_decreases(n1 - i)
"""}),
    dict(name="subdivide", file=PG, sig=r"void ompl::geometric::PathGeometric::subdivide\(\)", rules=SR, loops={1: """
__CPROVER_assigns(i, newStates_size, countG, posG, allocs)
__CPROVER_loop_invariant(1 <= i && i <= states__size && newStates_size == 2 * (size_t)i - 1 && allocs == (int)i - 1)
__CPROVER_loop_invariant(G < i ? (countG == 1 && posG == 2 * G) : countG == 0)
__CPROVER_decreases(states__size - i)
"""}),
    dict(name="check", file=PG, sig=r"bool ompl::geometric::PathGeometric::check\(\) const", rules=CR, loops={1: """
__CPROVER_assigns(j, result, checkedG, any_bad)
__CPROVER_loop_invariant(0 <= j && j <= last && last == (int)states__size - 1 && (result == !any_bad))
__CPROVER_loop_invariant((result && G < (size_t)j) ==> (checkedG && MVG))
__CPROVER_decreases(last - j)
"""}),
]
STUBS = ["NS_PUSH_ORIG", "FLOOR_INT", "DIST", "getMotionStates_stub", "NS_PUSH_NEW", "isValid0", "checkMotionIdx"]
UNITS = [
    dict(name="c17_interpolate_count_order", template="C17/pathgeom.c", entry="h_interpolate", sources=SOURCES, enforce=["pg_interpolate"], replace=STUBS, flags=FLAGS, level="proof",
         bound="paths of <= 1e6 states, <= 2e6 requested", functions=["ompl::geometric::PathGeometric::interpolate(unsigned int)"], backend="minisat", timeout=900, expect_loops=1,
         confirm=dict(unwind=6, defines={}),
         canaries=[dict(name="budget_off_by_one", where="body:interpolate", rx=r"count -= \(ns \+ 1\);", repl="count -= ns;"),
                   dict(name="last_state_dropped", where="body:interpolate", rx=r"NS_PUSH_ORIG\(\(size_t\)n1\);", repl="")]),
    dict(name="c17_subdivide", template="C17/pathgeom.c", entry="h_subdivide", sources=SOURCES, enforce=["pg_subdivide"], replace=STUBS, flags=FLAGS, level="proof", expect_loops=1,
         bound="paths of <= 1e6 states", functions=["ompl::geometric::PathGeometric::subdivide"], backend="minisat", confirm=dict(unwind=6, defines={}),
         canaries=[dict(name="midpoint_after_vertex", where="body:subdivide", rx=r"(NS_PUSH_NEW\(\);)\s*(NS_PUSH_ORIG\(\(size_t\)i\);)", repl=r"\2 \1")]),
]
# ---------------------------------------------------------------- PathSimplifier (bounded)
PS = "src/ompl/geometric/src/PathSimplifier.cpp"
PSR = [
    (r"const base::SpaceInformationPtr &si = path\.getSpaceInformation\(\);", "", 0), (r"std::vector<base::State \*> &states = path\.getStates\(\);", "", 0),
    (r"path\.getStateCount\(\)", "states_size", 0),
    (r"std::vector<base::State \*> newStates\(2\);\s*newStates\[0\] = states\.front\(\);\s*newStates\[1\] = states\.back\(\);\s*states\.swap\(newStates\);", "KEEP_ENDPOINTS();", 0),
    (r"states\.erase\(states\.begin\(\) \+ p1 \+ 1, states\.begin\(\) \+ p2\);", "ERASE(p1 + 1, p2);", 0),
    (r"states\.size\(\)", "states_size", 0), (r"states\.front\(\)", "states[0]", 0), (r"states\.back\(\)", "states[states_size - 1]", 0),
    (r"si->checkMotion\(", "CM(", 0), (r"si->freeState\(", "FREE(", 0), (r"si->allocState\(\)", "ALLOC()", 0), (r"si->isValid\(", "ISVALID(", 0), (r"si->distance\(", "DIST(", 0),
    (r"si->getStateSpace\(\)->interpolate\(([^,]+), ([^,]+), 0\.5, (\w+)\);", r"INTERP(\1, \2, \3);", 0),
    (r"si->copyState\(states\[i\], (\w+)\);", r"COPY_INTO_PATH(i, \1);", 0),
    (r"path\.subdivide\(\);", "SUBDIVIDE();", 0),
    (r"rng_\.uniformInt\(", "UNIFORM_INT(", 0), (r"\(int\)\(floor\(0\.5 \+ \(double\)count \* rangeRatio\)\)", "FLOORI()", 0),
    (r"std::max\(", "MAXI(", 0), (r"std::min\(", "MINI(", 0), (r"std::swap\(p1, p2\);", "SWAPI(p1, p2);", 0), (r"std::size_t", "size_t", 0),
    (r"std::map<std::pair<const base::State \*, const base::State \*>, double> distances;", "", 0),
    (r"distances\[std::make_pair\(states\[(\w+)\], states\[(\w+)\]\)\]", r"DMAP[states[\1]][states[\2]]", 0),
    (r"std::numeric_limits<double>::infinity\(\)", "INFD", 0), (r"base::State \*(\w+) = ", r"SRef \1 = ", 0),
]
PSS = [
    dict(name="reduceVertices", file=PS, sig=r"bool ompl::geometric::PathSimplifier::reduceVertices\(PathGeometric &path, unsigned int maxSteps,\s*unsigned int maxEmptySteps, double rangeRatio\)", rules=PSR, loops={"allow_uncontracted": True}),
    dict(name="collapseCloseVertices", file=PS, sig=r"bool ompl::geometric::PathSimplifier::collapseCloseVertices\(PathGeometric &path, unsigned int maxSteps,\s*unsigned int maxEmptySteps\)", rules=PSR, loops={"allow_uncontracted": True}),
    dict(name="smoothBSpline", file=PS, sig=r"void ompl::geometric::PathSimplifier::smoothBSpline\(PathGeometric &path, unsigned int maxSteps, double minChange\)", rules=PSR, loops={"allow_uncontracted": True}),
]
PFL = ["--bounds-check", "--pointer-check", "--signed-overflow-check", "--conversion-check", "--div-by-zero-check"]
for fn, can in (("reduceVertices", [dict(name="shortcut_not_validated", where="body:reduceVertices", rx=r"if \(CM\(states\[p1\], states\[p2\]\)\)", repl="if (CM(states[p1], states[p2]) || 1)"),
                                    dict(name="frees_an_endpoint", where="body:reduceVertices", rx=r"for \(int j = p1 \+ 1; j < p2; \+\+j\)", repl="for (int j = p1 + 1; j <= p2; ++j)")]),
                ("collapseCloseVertices", [dict(name="erases_wrong_range", where="body:collapseCloseVertices", rx=r"ERASE\(p1 \+ 1, p2\);", repl="ERASE(p1 + 1, p2 + 1 < (int)states_size ? p2 + 1 : p2);")]),
                ("smoothBSpline", [dict(name="outgoing_leg_not_validated", where="body:smoothBSpline", rx=r"CM\(temp1, states\[i \+ 1\]\)", repl="CM(temp2, states[i + 1])")])):
    UNITS.append(dict(name="c17_simplifier_" + fn, template="C17/simplifier.c", mode="plain", entry="h_" + fn, sources=PSS, flags=PFL, unwind=7, level="bounded", backend="cadical", timeout=1500,
                      **(dict(defines=dict(NMAX=4, CAP=4, NREF=8), tiers=dict(thorough=dict(defines=dict(NMAX=5, CAP=5, NREF=9)))) if fn == "collapseCloseVertices" else dict(defines=dict(NMAX=5, CAP=5, NREF=9))),
                      bound="paths of <= 5 states (collapseCloseVertices: 4 in the quick tier; smoothBSpline: <= 3 states before subdivision, 1 step), <= 2 steps (0 = as many as states)", functions=["ompl::geometric::PathSimplifier::" + fn], canaries=can))

# ---------------------------------------------------------------- PathSimplifier::findBetterGoal (bounded)
BGR = [
    (r"std::vector<base::State \*> &states = path\.getStates\(\);", "", 0), (r"const base::StateSpacePtr &ss = si_->getStateSpace\(\);", "", 0),
    (r"std::vector<base::Cost> costs\(states\.size\(\), obj_->identityCost\(\)\);", "INIT_COSTS();", 0), (r"std::vector<double> dists\(states\.size\(\), 0\.0\);", "INIT_DISTS();", 0),
    (r"costs\.resize\(states\.size\(\), obj_->identityCost\(\)\);", "RESIZE_COSTS();", 0), (r"dists\.resize\(states\.size\(\), 0\.0\);", "RESIZE_DISTS();", 0),
    (r"path\.getStateCount\(\)", "states_size", 0), (r"path\.getState\(0\)", "states[0]", 0), (r"path\.append\(tempGoal\);", "APPEND(tempGoal);", 0),
    (r"std::min\(\(unsigned\)10, gsr_->maxSampleCount\(\)\)", "MINU(10u, MAXSAMPLECOUNT())", 0),
    (r"auto end = std::lower_bound\(dists\.begin\(\), dists\.end\(\), t\);", "size_t end = LOWER_BOUND(t);", 0), (r"auto start = end;", "size_t start = end;", 0),
    (r"start != dists\.begin\(\) && \*start >= t", "start != 0 && dists[start] >= t", 0),
    (r"= start - dists\.begin\(\);", "= (unsigned int)start;", 0), (r"= end - dists\.begin\(\);", "= (unsigned int)end;", 0),
    (r"\(\*start\)", "dists[start]", 0), (r"\(\*end\)", "dists[end]", 0), (r"\(\*end - \*start\)", "(dists[end] - dists[start])", 0),
    (r"states\.erase\(states\.begin\(\) \+ (\w+) \+ 2, states\.end\(\)\);", r"ERASE_TAIL(\1 + 2);", 0),
    (r"states\.size\(\)", "states_size", 0), (r"dists\.size\(\)", "dists_size", 0), (r"dists\.back\(\)", "dists[dists_size - 1]", 0), (r"costs\.back\(\)", "costs[costs_size - 1]", 0),
    (r"\bstates\[([^\]]+)\]", r"states[IDX_S(\1)]", 0), (r"\bdists\[([^\]]+)\]", r"dists[IDX_D(\1)]", 0), (r"\bcosts\[([^\]]+)\]", r"costs[IDX_C(\1)]", 0),
    (r"obj_->combineCosts\(", "COMBINE(", 0), (r"obj_->motionCost\(", "MCOST(", 0), (r"obj_->isCostBetterThan\(", "BETTER(", 0), (r"base::Cost (\w+) = ", r"long \1 = ", 0),
    (r"base::State \*(\w+)( =|;)", r"SRef \1\2", 0), (r"si_->allocState\(\)", "ALLOC()", 0), (r"si_->freeState\(", "FREE(", 0), (r"si_->distance\(", "DIST(", 0), (r"si_->checkMotion\(", "CM(", 0), (r"si_->copyState\(", "COPYSTATE(", 0),
    (r"gsr_->sampleGoal\(", "SAMPLEGOAL(", 0), (r"gsr_->isStartGoalPairValid\(", "PAIRVALID(", 0), (r"ss->interpolate\(", "INTERP(", 0),
    (r"!ptc\b", "!PTC()", 0), (r"rng_\.uniformReal\(std::max\(", "UNIFORM_REAL(MAXD(", 0), (r"std::max\(1u, startIndex\)", "MAXU(1u, startIndex)", 0),
]
UNITS.append(dict(name="c17_simplifier_findBetterGoal", template="C17/bettergoal.c", mode="plain", entry="h_findBetterGoal", flags=PFL, unwind=7, unwindset={"ps_findBetterGoal.5": 2, "ps_findBetterGoal.6": 2}, defines=dict(MAXGOALS=1, MAXSA=1), split="per-property", split_groups=[r"\\.(array_bounds|pointer_dereference)\\.", r"^h_findBetterGoal\\.overflow", r"^ps_findBetterGoal\\.overflow\\.[0-9]$", r"^ps_findBetterGoal\\.overflow\\.1[0-9]$", r"^ps_findBetterGoal\\.overflow\\.2[0-9]$", r"^ps_findBetterGoal\\.overflow", r"\\.overflow\\.", r"unwind"], level="bounded", backend="minisat", timeout=900,
                  sources=[dict(name="findBetterGoal", file=PS, sig=r"bool ompl::geometric::PathSimplifier::findBetterGoal\(PathGeometric &path, const base::PlannerTerminationCondition &ptc,\s*unsigned int samplingAttempts, double rangeRatio,\s*double snapToVertex\)", rules=BGR, loops={"allow_uncontracted": True})],
                  bound="paths of <= 4 states, 1 sampled goal x 1 sampling attempt (every attempt before the accepted one leaves the path untouched); additive objective with non-negative motion costs <= 2^40", functions=["ompl::geometric::PathSimplifier::findBetterGoal"],
                  canaries=[dict(name="cost_to_come_before_snapping", where="body:findBetterGoal", rx=r"long costToCome = costs\[IDX_C\(startIndex\)\];", repl="long costToCome = costs[IDX_C(start)];", props=[r"C17\.cost", r"C17\.range"]),
                            dict(name="goal_motion_not_validated", where="body:findBetterGoal", rx=r"&& CM\(state, tempGoal\)", repl="&& (CM(state, tempGoal) || 1)", props=[r"C17\.validated"])]))

# ---------------------------------------------------------------- PathHybridization::clear
UNITS.append(dict(name="c17_hybridization_clear", template="C17/hybrid_clear.c", mode="plain", entry="h_hybrid_clear", flags=PFL, level="proof", backend="minisat", timeout=300, functions=["ompl::geometric::PathHybridization::clear"],
                  sources=[dict(name="clear", file="src/ompl/geometric/src/PathHybridization.cpp", sig=r"void ompl::geometric::PathHybridization::clear\(\)", loops={},
                                rules=[(r"hpath_\.reset\(\);", "hpath_set = 0;", 0), (r"paths_\.clear\(\);", "paths_n = 0;", 0), (r"g_\.clear\(\);", "g_nv = 0;", 0), (r"boost::add_vertex\(g_\)", "ADD_VERTEX()", 0),
                                       (r"stateProperty_\[(\w+)\] = nullptr;", r"SP[\1] = NIL;", 0)])],
                  canaries=[dict(name="graph_kept", where="body:clear", rx=r"g_nv = 0;", repl="")]))

# ---------------------------------------------------------------- PathSimplifier::ropeShortcutPath (bounded)
ROPE_RULES = [
    (r"const base::SpaceInformationPtr &si = path\.getSpaceInformation\(\);", "", 0), (r"std::vector<base::State \*> &states = path\.getStates\(\);", "", 0), (r"path\.getStateCount\(\)", "states_size", 0),
    (r"std::size_t numIntermediateStates = static_cast<std::size_t>\(floor\(dist / delta\)\);", "size_t numIntermediateStates = FLOORDIV(dist, delta);", 0),
    (r"std::size_t numIntermediateStates = \(int\)\(floor\(dist / delta\)\);", "size_t numIntermediateStates = FLOORDIV(dist, delta);", 0), (r"std::size_t", "size_t", 0),
    (r"std::vector<base::Cost> costs\(states\.size\(\), obj_->identityCost\(\)\);", "INIT_COSTS();", 0), (r"costs\.resize\(states\.size\(\), obj_->identityCost\(\)\);", "RESIZE_COSTS();", 0),
    (r"ompl::base::Cost equivalenceCost\(equivalenceTolerance \* delta\);", "long equivalenceCost = (long)(equivalenceTolerance * delta);", 0),
    (r"states\.insert\(states\.begin\(\) \+ ([^,]+), newState\);", r"INSERT(\1, newState);", 0), (r"states\.erase\(states\.begin\(\) \+ ([^,]+), states\.begin\(\) \+ ([^)]+)\);", r"ERASE(\1, \2);", 0),
    (r"states\.size\(\)", "states_size", 0), (r"costs\.size\(\)", "costs_size", 0),
    (r"\bstates\[([^\]]+)\]", r"states[IDX_S(\1)]", 0), (r"\bcosts\[([^\]]+)\]", r"costs[IDX_C(\1)]", 0),
    (r"obj_->combineCosts\(", "COMBINE(", 0), (r"obj_->subtractCosts\(", "SUBTRACT(", 0), (r"obj_->motionCost\(", "MCOST(", 0), (r"obj_->isCostBetterThan\(", "BETTER(", 0), (r"base::Cost (\w+) = ", r"long \1 = ", 0),
    (r"base::State \*newState = si->allocState\(\);", "SRef newState = ALLOC();", 0), (r"si->getStateSpace\(\)->interpolate\(", "INTERP(", 0), (r"si->distance\(", "DIST(", 0), (r"si->checkMotion\(", "CM(", 0), (r"si->freeState\(", "FREE(", 0),
]
ROPE_SRC = [dict(name="rope_densify", file=PS, begin=r"for \(std::size_t i = 0; i < states\.size\(\) - 1; \+\+i\)\s*\{\s*double dist = si->distance\(states\[i\], states\[i \+ 1\]\);", end=r"\}\s*std::vector<base::Cost> costs\(states\.size\(\), obj_->identityCost\(\)\);\s*for \(std::size_t i = 1; i < costs\.size\(\); \+\+i\)",
                 rules=[(r"^for \(std::size_t i = 0; i < states\.size\(\) - 1; \+\+i\)\s*\{", "{ ", 0)] + ROPE_RULES + [(r"$", " return 0; }", 0)], wrap_braces=False, loops={"allow_uncontracted": True}),
            dict(name="rope_shortcut", file=PS, begin=r"base::Cost shortcutCost = obj_->motionCost\(states\[i\], states\[j\]\);", end=r"i = -1;\s*break;", rules=[(r"return result;", "return 1;", 0), (r"\bbreak;", "return 2;", 0)] + ROPE_RULES + [(r"^", "{ ", 0), (r"$", " } return 3; }", 0)],
                 wrap_braces=False, loops={"allow_uncontracted": True})]
for nm, ent, can in (("c17_simplifier_rope_densify_step", "h_rope_densify", [dict(name="interpolates_towards_the_wrong_state", where="body:rope_densify", rx=r"states\[IDX_S\(i \+ 1 \+ j\)\], t", repl="states[IDX_S(i + 1)], t")]),
                     ("c17_simplifier_rope_shortcut_block", "h_rope_shortcut", [dict(name="costs_not_updated_after_a_shortcut", where="body:rope_shortcut", rx=r"for \(size_t k = i \+ 1; k < costs_size; \+\+k\)", repl="for (size_t k = i + 2; k < costs_size; ++k)"),
                                                                               dict(name="frees_the_far_end", where="body:rope_shortcut", rx=r"for \(size_t k = i \+ 1; k < j; \+\+k\)", repl="for (size_t k = i + 1; k <= j; ++k)")])):
    UNITS.append(dict(name=nm, template="C17/rope.c", mode="plain", entry=ent, flags=[f for f in PFL if f != "--conversion-check"], unwind=9, level="bounded", backend="minisat", timeout=1800, sources=ROPE_SRC,
                      bound="inductive step from an arbitrary path of <= 5 states, <= 2 interpolated states per motion; additive objective with non-negative motion costs <= 2^40", functions=["ompl::geometric::PathSimplifier::ropeShortcutPath (" + ("densification of one motion" if "densify" in nm else "shortcut block") + ")"], canaries=can, defines=dict(NMAX=5)))

# ---------------------------------------------------------------- PathSimplifier::partialShortcutPath: the acceptance test of one attempt
PSC_RULES = [(r"std::swap\((\w+), (\w+)\);", r"SWAP_(\1, \2);", 0), (r"base::Cost (\w+) = ", r"double \1 = ", 0), (r"obj_->identityCost\(\)", "0.0", 0), (r"obj_->motionCost\(", "MC(", 0),
             (r"obj_->combineCosts\(", "COMB(", 0), (r"obj_->isCostBetterThan\(", "BETTER(", 0), (r"states\[([^\]]+)\]", r"ST(\1)", 0)]
UNITS.append(dict(name="c17_simplifier_partialShortcut_accept", template="C17/partial_shortcut.c", mode="plain", entry="h_partial_accept", flags=["--bounds-check", "--pointer-check", "--signed-overflow-check"], unwind=9, level="bounded",
                  bound="paths of <= 6 states, one attempt", backend="cadical", timeout=600, functions=["ompl::geometric::PathSimplifier::partialShortcutPath (cost test of one attempt)"],
                  sources=[dict(name="partial_accept", file=PS, begin=r"if \(pos0 > pos1\)\s*\{\s*std::swap\(pos0, pos1\);", end=r"if \(index0 < 0 && index1 < 0\)\s*\{\s*if \(pos0 \+ 1 == pos1\)", rules=PSC_RULES, loops={"allow_uncontracted": True})],
                  canaries=[dict(name="wrong_half_of_the_last_motion", where="body:partial_accept", rx=r"MC\(ST\(pos1\), s1\)", repl="MC(s1, ST(pos1 + 1))")]))

# ---------------------------------------------------------------- PathGeometric::checkAndRepair
CR_RULES = [
    (r"if \(!si_->isSetup\(\)\)\s*si_->setup\(\);", "", 0), (r"states_\.empty\(\)", "(states__size == 0)", 0), (r"states_\.size\(\)", "states__size", 0),
    (r"return std::make_pair\(([^;]+?), ([^;]+?)\);", r"{ PairBB r_ = {\1, \2}; return r_; }", 0), (r"states_\[([^\]]+)\]", r"states_(\1)", 0),
    (r"si_->isValid\(", "IS_VALID(", 0), (r"si_->checkMotion\(", "CHECK_MOTION(", 0),
    (r"base::State \*temp = nullptr;", "int temp = 0;", 0), (r"base::UniformValidStateSampler \*uvss = nullptr;", "int uvss = 0;", 0),
    (r"temp = si_->allocState\(\);", "{ temp = 9; live_temp++; }", 0), (r"uvss = new base::UniformValidStateSampler\(si_\.get\(\)\);\s*uvss->setNrAttempts\(attempts\);", "uvss = 1; live_uvss++; nr_attempts_set = attempts;", 0),
    (r"si_->copyState\(temp, states_\(i\)\);", ";", 0), (r"si_->distance\(", "DISTANCE(", 0), (r"si_->getStateSpace\(\)->interpolate\([^;]*\);", ";", 0), (r"std::max\(", "MAXD(", 0),
    (r"uvss->sampleNear\(states_\(i\), temp, radius\)", "SAMPLE_NEAR(i)", 0), (r"si_->freeState\(temp\);", "live_temp--;", 0), (r"uvss == nullptr", "uvss == 0", 0), (r"delete uvss;", "live_uvss--;", 0),
]
UNITS.append(dict(name="c17_checkAndRepair", template="C17/check_repair.c", mode="plain", entry="h_checkAndRepair", flags=["--bounds-check", "--pointer-check", "--signed-overflow-check", "--conversion-check"], unwind=7, level="bounded",
                  bound="paths of <= 5 states, <= 2 sampling attempts per repaired state", backend="cadical", timeout=600, functions=["ompl::geometric::PathGeometric::checkAndRepair"],
                  sources=[dict(name="checkAndRepair", file="src/ompl/geometric/src/PathGeometric.cpp", sig=r"std::pair<bool, bool> ompl::geometric::PathGeometric::checkAndRepair\(unsigned int attempts\)", rules=CR_RULES, loops={"allow_uncontracted": True})],
                  canaries=[dict(name="last_motion_never_checked", where="body:checkAndRepair", rx=r"i == n1 - 1 &&", repl="i == n1 &&"),
                            dict(name="repair_not_rechecked_against_the_next_state", where="body:checkAndRepair", rx=r"\(i < n1 - 1 \|\| CHECK_MOTION\(states_\(i\), states_\(i \+ 1\)\)\)", repl="1")]))

ASSUMPTIONS = ["the state vector is modelled as the identity sequence; getMotionStates(s1,s2,block,ns,false,true) yields exactly ns interior states (its own contract, not verified here)",
               "(int)floor(0.5 + count*segLen/remaining) is an arbitrary int below INT_MAX: for a zero-length path the operand is NaN and the conversion is undefined behaviour in C++ (x86 yields INT_MIN, which the code tolerates); recorded as an assumption"]
TRUSTED = ["extraction rewrite tables of units/C17.py", "stubs in units/C17/pathgeom.c", "CBMC 6.11 DFCC + cadical/minisat"]
NOT_COVERED = ["findBetterGoal: that the interpolation parameter (t - d[start]) / (d[end] - d[start]) lies in [0,1] (floating-point division: no back end finished)", "PathSimplifier: partialShortcutPath apart from the cost test of one attempt (sampling / snapping arithmetic and the path surgery are not covered), perturbPath, simplify; ropeShortcutPath only as two inductive steps (its loop structure: restart after a shortcut, early exits, is not covered); (reduceVertices, collapseCloseVertices, smoothBSpline and findBetterGoal are checked bounded: <= 5 states, <= 2 steps); PathHybridization; every 'never longer / never worse' cost clause (exact-arithmetic)",
               "SpaceInformation::getMotionStates, PathGeometric::interpolate() (no-argument form), 'length unchanged' by densification"]

MISC_CPPS = ['src/ompl/geometric/src/PathGeometric.cpp']
NATIVE = [
    dict(name="c17_rope_native", driver="native/c17_rope_native.cpp", link_ompl=True, unit_cpps=["src/ompl/geometric/src/PathSimplifier.cpp"], extra=["-D_GLIBCXX_ASSERTIONS"],
         args=lambda tier, seed: [seed, 200 if tier == "quick" else 20000], timeout=900),
    dict(name="c17_native_search", driver="native/misc_native.cpp", link_ompl=True, unit_cpps=MISC_CPPS, args=lambda tier, seed: ["c17", seed, 2000 if tier == "quick" else 200000], timeout=900),
]


def replay(ur, scratch, seed):
    """Search the real classes for a failing input (native/misc_native.cpp, mode c17)."""
    from vf import native as N, cbmc as C
    exe = N.build_driver("native/misc_native.cpp", scratch, link_ompl=True, unit_cpps=MISC_CPPS)
    r = C.run_cmd([exe, "c17", str(seed), "50000"], 600, env=N.run_env())
    return dict(found=(r["rc"] == 1), driver="native/misc_native.cpp", args=["c17", seed, 50000], link_ompl=True, unit_cpps=MISC_CPPS, output=r["out"][-2500:])
