"""C17 -- path post-processing preserves endpoints, validity and never worsens cost (reduced scope: densification counts/order)."""
PROPERTY = "C17"
LEVEL = "proof"
PG = "src/ompl/geometric/src/PathGeometric.cpp"
FLAGS = ["--bounds-check", "--pointer-check", "--signed-overflow-check", "--conversion-check", "--div-by-zero-check", "--no-malloc-may-fail", "--object-bits", "12"]
IR = [
    (r"double remainingLength = length\(\);", "double remainingLength = DIST();", 0),
    (r"std::vector<base::State \*> newStates;", "", 0),
    (r"base::State \*s1 = states_\[i\];", "size_t s1 = (size_t)i;", 0), (r"base::State \*s2 = states_\[i \+ 1\];", "size_t s2 = (size_t)i + 1;", 0),
    (r"newStates\.push_back\(s1\);", "NS_PUSH_ORIG(s1);", 0), (r"newStates\.push_back\(states_\[n1\]\);", "NS_PUSH_ORIG((size_t)n1);", 0),
    (r"si_->distance\(s1, s2\)", "DIST()", 0),
    (r"\(int\)floor\(0\.5 \+ \(double\)count \* segmentLength / remainingLength\)", "FLOOR_INT()", 0),
    (r"std::vector<base::State \*> block;\s*si_->getMotionStates\(s1, s2, block, ns, false, true\);\s*newStates\.insert\(newStates\.end\(\), block\.begin\(\), block\.end\(\)\);", "newStates_size += getMotionStates_stub(ns);", 0),
    (r"states_\.swap\(newStates\);", "states__size = newStates_size;", 0),
    (r"states_\.size\(\)", "states__size", 0),
]
SR = [
    (r"std::vector<base::State \*> newStates\(1, states_\[0\]\);", "NS_PUSH_ORIG(0);", 0),
    (r"base::State \*temp = si_->allocState\(\);\s*si_->getStateSpace\(\)->interpolate\(newStates\.back\(\), states_\[i\], 0\.5, temp\);\s*newStates\.push_back\(temp\);", "NS_PUSH_NEW();", 0),
    (r"newStates\.push_back\(states_\[i\]\);", "NS_PUSH_ORIG((size_t)i);", 0),
    (r"states_\.swap\(newStates\);", "states__size = newStates_size;", 0), (r"states_\.size\(\)", "states__size", 0),
]
CR = [
    (r"if \(!si_->isSetup\(\)\)\s*si_->setup\(\);", "", 0),
    (r"si_->isValid\(states_\[0\]\)", "isValid0()", 0),
    (r"si_->checkMotion\(states_\[j\], states_\[j \+ 1\]\)", "checkMotionIdx((size_t)j, (size_t)j + 1)", 0),
    (r"states_\.size\(\)", "states__size", 0),
]
SOURCES = [
    dict(name="interpolate", file=PG, sig=r"void ompl::geometric::PathGeometric::interpolate\(unsigned int requestCount\)", rules=IR, loops={1: """
__CPROVER_assigns(i, count, newStates_size, countG, posG, remainingLength)
__CPROVER_loop_invariant(0 <= i && i <= n1 && n1 == (int)states__size - 1)
__CPROVER_loop_invariant(newStates_size <= requestCount && newStates_size + count == requestCount && newStates_size >= (size_t)i && (i == 0 ==> newStates_size == 0))
__CPROVER_loop_invariant(count >= states__size - i)
__CPROVER_loop_invariant(i == n1 ==> count == 1)
__CPROVER_loop_invariant(G < (size_t)i ? (countG == 1 && posG >= G && posG < newStates_size && (G != 0 || posG == 0)) : countG == 0)
__CPROVER_decreases(n1 - i)
"""}),
    dict(name="subdivide", file=PG, sig=r"void ompl::geometric::PathGeometric::subdivide\(\)", rules=SR, loops={1: """
__CPROVER_assigns(i, newStates_size, countG, posG, allocs)
__CPROVER_loop_invariant(1 <= i && i <= states__size && newStates_size == 2 * (size_t)i - 1 && allocs == (int)i - 1)
__CPROVER_loop_invariant(G < i ? (countG == 1 && posG == 2 * G) : countG == 0)
__CPROVER_decreases(states__size - i)
"""}),
    dict(name="check", file=PG, sig=r"bool ompl::geometric::PathGeometric::check\(\) const", rules=CR, loops={1: """
__CPROVER_assigns(j, result, checkedG, any_bad)
__CPROVER_loop_invariant(0 <= j && j <= last && last == (int)states__size - 1 && (result == !any_bad))
__CPROVER_loop_invariant((result && G < (size_t)j) ==> (checkedG && MVG))
__CPROVER_decreases(last - j)
"""}),
]
STUBS = ["NS_PUSH_ORIG", "FLOOR_INT", "DIST", "getMotionStates_stub", "NS_PUSH_NEW", "isValid0", "checkMotionIdx"]
UNITS = [
    dict(name="c17_interpolate_count_order", template="C17/pathgeom.c", entry="h_interpolate", sources=SOURCES, enforce=["pg_interpolate"], replace=STUBS, flags=FLAGS, level="proof",
         bound="paths of <= 1e6 states, <= 2e6 requested", functions=["ompl::geometric::PathGeometric::interpolate(unsigned int)"], backend="minisat", timeout=900, expect_loops=1,
         confirm=dict(unwind=6, defines={}),
         canaries=[dict(name="budget_off_by_one", where="body:interpolate", rx=r"count -= \(ns \+ 1\);", repl="count -= ns;"),
                   dict(name="last_state_dropped", where="body:interpolate", rx=r"NS_PUSH_ORIG\(\(size_t\)n1\);", repl="")]),
    dict(name="c17_subdivide", template="C17/pathgeom.c", entry="h_subdivide", sources=SOURCES, enforce=["pg_subdivide"], replace=STUBS, flags=FLAGS, level="proof", expect_loops=1,
         bound="paths of <= 1e6 states", functions=["ompl::geometric::PathGeometric::subdivide"], backend="minisat", confirm=dict(unwind=6, defines={}),
         canaries=[dict(name="midpoint_after_vertex", where="body:subdivide", rx=r"(NS_PUSH_NEW\(\);)\s*(NS_PUSH_ORIG\(\(size_t\)i\);)", repl=r"\2 \1")]),
]
ASSUMPTIONS = ["the state vector is modelled as the identity sequence; getMotionStates(s1,s2,block,ns,false,true) yields exactly ns interior states (its own contract, not verified here)",
               "(int)floor(0.5 + count*segLen/remaining) is an arbitrary int below INT_MAX: for a zero-length path the operand is NaN and the conversion is undefined behaviour in C++ (x86 yields INT_MIN, which the code tolerates); recorded as an assumption"]
TRUSTED = ["extraction rewrite tables of units/C17.py", "stubs in units/C17/pathgeom.c", "CBMC 6.11 DFCC + cadical/minisat"]
NOT_COVERED = ["PathSimplifier: reduceVertices, collapseCloseVertices, ropeShortcutPath, partialShortcutPath, B-spline smoothing, perturbation, findBetterGoal, simplify; PathHybridization; every 'never longer / never worse' cost clause (exact-arithmetic)",
               "SpaceInformation::getMotionStates, PathGeometric::interpolate() (no-argument form), 'length unchanged' by densification"]

MISC_CPPS = ['src/ompl/geometric/src/PathGeometric.cpp']
NATIVE = [
    dict(name="c17_native_search", driver="native/misc_native.cpp", link_ompl=True, unit_cpps=MISC_CPPS, args=lambda tier, seed: ["c17", seed, 2000 if tier == "quick" else 200000], timeout=900),
]


def replay(ur, scratch, seed):
    """Search the real classes for a failing input (native/misc_native.cpp, mode c17)."""
    from vf import native as N, cbmc as C
    exe = N.build_driver("native/misc_native.cpp", scratch, link_ompl=True, unit_cpps=MISC_CPPS)
    r = C.run_cmd([exe, "c17", str(seed), "50000"], 600, env=N.run_env())
    return dict(found=(r["rc"] == 1), driver="native/misc_native.cpp", args=["c17", seed, 50000], link_ompl=True, unit_cpps=MISC_CPPS, output=r["out"][-2500:])
