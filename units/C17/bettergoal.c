/* C17: PathSimplifier::findBetterGoal -- keeps the first state, replaces the last one only by a sampled goal state, introduces only
 * validated motions (a prefix of a motion of the input path, or a motion approved by the motion check), and when it reports success the
 * resulting path is strictly better under its own objective than the input path; when it reports failure the path is untouched.
 * States carry ghost content ids; the objective is abstract: motionCost is an arbitrary non-negative table over content ids, costs are
 * combined by addition (the shape of every additive objective shipped with the library).  Bounded: <= NMAX states, <= 2 goals x 2 samples. */
#include <stddef.h>
#include <stdbool.h>
#ifndef NMAX
#define NMAX 4
#endif
#ifndef MAXGOALS
#define MAXGOALS 1
#define MAXSA 1
#endif
#define CAP (NMAX + 1)
#define NREF (NMAX + 5)
#define NC (NMAX + 2 + 8)
#define REACH(tag) __CPROVER_assert(0, "REACH " tag)
typedef unsigned SRef;
SRef states[CAP]; size_t states_size; long costs[CAP]; size_t costs_size; double dists[CAP]; size_t dists_size;
unsigned S_cid[NREF]; bool S_alive[NREF]; SRef next_s; unsigned next_cid; int frees, allocs; bool freeStates_; bool gsr_;
long MC[NC][NC];                       /* abstract objective */
bool IS_GOAL[NC];
struct { unsigned a, b, out; bool used; } IL;   /* last interpolation: out lies on the motion a -> b */
struct { unsigned a, b; bool ok; } LAST_CM;
unsigned orig_cid[CAP]; size_t n0; long orig_cost;
bool nondet_bool(void); unsigned nondet_unsigned(void); double nondet_double(void); long nondet_long(void);
static size_t IDX_S(size_t i) { __CPROVER_assert(i < states_size, "C17.range path index within the path"); return i; }
static size_t IDX_C(size_t i) { __CPROVER_assert(i < costs_size, "C17.range cost index within the vector"); return i; }
static size_t IDX_D(size_t i) { __CPROVER_assert(i < dists_size, "C17.range distance index within the vector"); return i; }
static long mc(unsigned a, unsigned b) { __CPROVER_assert(a < NC && b < NC, "cid range"); long v = MC[a][b]; __CPROVER_assume(v >= 0 && v <= (1L << 40)); return v; }
static long MCOST(SRef a, SRef b) { __CPROVER_assert(S_alive[a] && S_alive[b], "cost of live states"); return mc(S_cid[a], S_cid[b]); }
#define COMBINE(a, b) ((a) + (b))
#define BETTER(a, b) ((a) < (b))
#define MINU(a, b) ((a) < (b) ? (a) : (b))
#define MAXU(a, b) ((a) > (b) ? (a) : (b))
#define MAXD(a, b) ((a) > (b) ? (a) : (b))
static unsigned MAXSAMPLECOUNT(void) { unsigned r = nondet_unsigned(); __CPROVER_assume(r <= MAXGOALS); return r; }
static bool PTC(void) { return nondet_bool(); }
static double DIST(SRef a, SRef b) { double d = nondet_double(); __CPROVER_assume(d >= 0.0 && d <= 1024.0); return d; }
static SRef ALLOC(void) { __CPROVER_assert(next_s < NREF, "pool"); SRef r = next_s++; S_alive[r] = 1; S_cid[r] = 0; allocs++; return r; }
static void FREE(SRef s) { __CPROVER_assert(s < NREF && S_alive[s], "C17.mem a state is freed at most once"); S_alive[s] = 0; frees++; }
static void SAMPLEGOAL(SRef g) { __CPROVER_assert(next_cid < NC, "cid pool"); S_cid[g] = next_cid++; IS_GOAL[S_cid[g]] = 1; }
static bool PAIRVALID(SRef a, SRef b) { return nondet_bool(); }
static double UNIFORM_REAL(double lo, double hi) { __CPROVER_assert(lo <= hi, "uniformReal(lower <= upper)"); double r = nondet_double(); __CPROVER_assume(r >= lo && r <= hi); return r; }
static size_t LOWER_BOUND(double t) { size_t r = dists_size; for (size_t k = CAP; k-- > 0;) if (k < dists_size && dists[k] >= t) r = k; return r; }   /* dists is non-decreasing */
static void INTERP(SRef a, SRef b, double t, SRef out) { /* t in [0,1] is not an obligation here: the quotient of two double differences did not finish on any back end (DESIGN 9.2) */ __CPROVER_assert(next_cid < NC, "cid pool"); IL.a = S_cid[a]; IL.b = S_cid[b]; S_cid[out] = next_cid++; IL.out = S_cid[out]; IL.used = 1; }
static bool CM(SRef a, SRef b) { bool r = nondet_bool(); LAST_CM.a = S_cid[a]; LAST_CM.b = S_cid[b]; LAST_CM.ok = r; return r; }
static void COPYSTATE(SRef dst, SRef src) { __CPROVER_assert(S_alive[dst] && S_alive[src], "copy between live states"); S_cid[dst] = S_cid[src]; }
static void APPEND(SRef s) { __CPROVER_assert(states_size < CAP, "capacity"); SRef r = ALLOC(); S_cid[r] = S_cid[s]; states[states_size++] = r; }
static void ERASE_TAIL(size_t from) { __CPROVER_assert(from <= states_size, "C17.range erase range within the path"); states_size = from; }
static void INIT_COSTS(void) { costs_size = states_size; for (size_t k = 0; k < CAP; k++) costs[k] = 0; }
static void INIT_DISTS(void) { dists_size = states_size; for (size_t k = 0; k < CAP; k++) dists[k] = 0.0; }
static void RESIZE_COSTS(void) { for (size_t k = 0; k < CAP; k++) if (k >= costs_size) costs[k] = 0; costs_size = states_size; }
static void RESIZE_DISTS(void) { for (size_t k = 0; k < CAP; k++) if (k >= dists_size) dists[k] = 0.0; dists_size = states_size; }

bool ps_findBetterGoal(unsigned int samplingAttempts, double rangeRatio, double snapToVertex)
/*@BODY findBetterGoal@*/

void h_findBetterGoal(void)
{
    n0 = nondet_unsigned(); __CPROVER_assume(n0 <= NMAX); states_size = n0; next_s = 1; next_cid = 1; frees = allocs = 0; freeStates_ = nondet_bool(); gsr_ = nondet_bool(); IL.used = 0; LAST_CM.ok = 0;
    __CPROVER_array_set(S_alive, 0); __CPROVER_array_set(IS_GOAL, 0);
    orig_cost = 0;
    for (size_t k = 0; k < CAP; k++) if (k < n0) { SRef s = next_s++; states[k] = s; S_alive[s] = 1; S_cid[s] = next_cid++; orig_cid[k] = S_cid[s]; if (k) orig_cost += mc(orig_cid[k - 1], orig_cid[k]); }
    unsigned sa = nondet_unsigned(); __CPROVER_assume(sa <= MAXSA); double rr = nondet_double(), sv = nondet_double(); __CPROVER_assume(rr >= 0.0 && rr <= 1.0 && sv >= 0.0 && sv <= 1.0);
    bool r = ps_findBetterGoal(sa, rr, sv);
    __CPROVER_assert(allocs - frees == (int)states_size - (int)n0 + (freeStates_ ? 0 : (states_size < n0 ? (int)(n0 - states_size) : 0)), "C17.mem scratch states are freed, dropped states are freed exactly when the simplifier owns them");
    if (!r)
    {
        __CPROVER_assert(states_size == n0, "failure leaves the path length unchanged");
        for (size_t k = 0; k < CAP; k++) if (k < n0) __CPROVER_assert(S_alive[states[k]] && S_cid[states[k]] == orig_cid[k], "failure leaves every state unchanged");
        if (n0 >= 2 && gsr_) REACH("no better goal"); if (n0 < 2) REACH("too short");
        return;
    }
    __CPROVER_assert(states_size >= 2 && states_size <= CAP, "result has a start and a goal");
    __CPROVER_assert(S_cid[states[0]] == orig_cid[0], "C17.ends the first state is kept");
    __CPROVER_assert(IS_GOAL[S_cid[states[states_size - 1]]], "C17.ends the last state is replaced only by a sampled goal state");
    long cost = 0;
    for (size_t k = 0; k < CAP; k++) if (k < states_size)
    {
        __CPROVER_assert(S_alive[states[k]], "C17.mem no state of the resulting path was freed");
        if (k)
        {
            unsigned a = S_cid[states[k - 1]], b = S_cid[states[k]];
            cost += mc(a, b);
            bool original = k < n0 && a == orig_cid[k - 1] && b == orig_cid[k];
            bool prefix = IL.used && k < n0 && a == orig_cid[k - 1] && IL.a == orig_cid[k - 1] && IL.b == orig_cid[k] && b == IL.out;
            bool approved = LAST_CM.ok && LAST_CM.a == a && LAST_CM.b == b;
            __CPROVER_assert(original || prefix || approved, "C17.validated every motion of the result is a motion of the input path, a prefix of one, or was approved by the motion check");
        }
    }
    for (size_t k = 0; k < CAP; k++) for (size_t l = 0; l < CAP; l++) if (k < l && l < states_size) __CPROVER_assert(states[k] != states[l], "no state appears twice");
    __CPROVER_assert(cost < orig_cost, "C17.cost success means the resulting path is strictly better under the objective than the input path");
    if (IL.used && states_size > n0) REACH("interpolated on the last segment, goal appended");
    if (IL.used && states_size <= n0) REACH("interpolated, tail replaced");
    if (states_size < n0) REACH("snapped to a vertex, tail dropped");
}
