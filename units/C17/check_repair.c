/* C17 -- PathGeometric::checkAndRepair: when it reports success (second == true) every motion of the path was approved by the motion check
 * AFTER the last change of either of its end states, and both end states of the path are the original, valid ones; first == true only if no
 * state had to be changed.  States carry a version (bumped when the sampler rewrites them); checkMotion records, for every motion k, the
 * versions it approved.  Bounded: paths of <= 5 states, <= 2 sampling attempts per repair. */
#include <stdbool.h>
#include <stddef.h>
#define NS 5
#define REACH(msg) __CPROVER_assert(0, "REACH " msg)
bool nondet_bool(void); double nondet_double(void);
typedef int StateRef;                        /* 0..NS-1 path states, 9 = the scratch state */
typedef struct { bool first, second; } PairBB;
unsigned states__size; unsigned ver[NS + 1]; bool appr[NS]; unsigned appr_va[NS], appr_vb[NS]; unsigned changes; bool endpoint_valid_checked[2]; bool ENDV[2];
unsigned live_temp, live_uvss, nr_attempts_set;
#define states_(i) (i)
static bool IS_VALID(int i) { if (i == 0) { endpoint_valid_checked[0] = true; return ENDV[0]; } if ((unsigned)i == states__size - 1) { endpoint_valid_checked[1] = true; return ENDV[1]; } return nondet_bool(); }
static bool CHECK_MOTION(int a, int b)
{
    __CPROVER_assert(a >= 0 && b >= 0 && (unsigned)a < states__size && (unsigned)b < states__size, "motion check between states of the path");
    bool r = nondet_bool();
    if (b == a + 1) { appr[b] = r; appr_va[b] = ver[a]; appr_vb[b] = ver[b]; }
    return r;
}
static bool SAMPLE_NEAR(int i) { __CPROVER_assert(i >= 1 && (unsigned)i + 1 < states__size, "C17.ends only interior states are re-sampled"); bool r = nondet_bool(); if (r) { ver[i]++; changes++; } return r; }
static double DISTANCE(int a, int b) { double d = nondet_double(); __CPROVER_assume(d >= 0.0); return d; }
#define MAXD(a, b) ((a) > (b) ? (a) : (b))
PairBB pg_checkAndRepair(unsigned int attempts)
/*@BODY checkAndRepair@*/
void h_checkAndRepair(void)
{
    __CPROVER_assume(states__size >= 3 && states__size <= NS); for (unsigned k = 0; k <= NS; k++) ver[k] = 1; for (unsigned k = 0; k < NS; k++) appr[k] = false;
    changes = 0; live_temp = 0; live_uvss = 0; endpoint_valid_checked[0] = endpoint_valid_checked[1] = false; unsigned att; __CPROVER_assume(att <= 2);
    PairBB r = pg_checkAndRepair(att);
    if (r.second)
    {
        __CPROVER_assert(endpoint_valid_checked[0] && ENDV[0] && endpoint_valid_checked[1] && ENDV[1], "C17.ends success means the first and the last state are valid");
        for (unsigned k = 1; k < NS; k++) if (k < states__size)
            __CPROVER_assert(appr[k] && appr_va[k] == ver[k - 1] && appr_vb[k] == ver[k], "C17.valid success means every motion of the path passed the motion check after the last change of its end states");
        if (changes) REACH("repaired"); else REACH("valid as it was");
    }
    else REACH("not repairable");
    __CPROVER_assert(!r.first || changes == 0, "first == true only if no state was changed");
    __CPROVER_assert(live_temp == 0 && live_uvss == 0, "scratch state and sampler are released");
}
