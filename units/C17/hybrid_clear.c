/* C17: PathHybridization::clear -- "a hybridized path is never worse than the best recorded input path" is a statement about the paths
 * recorded since the last clear(): clear() must forget every recorded path, the hybrid path and the whole graph except fresh root/goal. */
#include <stddef.h>
#include <stdbool.h>
#define REACH(tag) __CPROVER_assert(0, "REACH " tag)
#define NIL 0
size_t paths_n, g_nv; bool hpath_set; unsigned root_, goal_; int SP[4];
static unsigned ADD_VERTEX(void) { __CPROVER_assert(g_nv < 4, "capacity"); return (unsigned)g_nv++; }
void ph_clear(void)
/*@BODY clear@*/
void h_hybrid_clear(void)
{
    __CPROVER_assume(g_nv >= 2);
    ph_clear();
    __CPROVER_assert(paths_n == 0, "C17.hybrid clear() forgets every recorded path");
    __CPROVER_assert(!hpath_set, "C17.hybrid clear() forgets the hybrid path");
    __CPROVER_assert(g_nv == 2 && root_ != goal_ && root_ < 2 && goal_ < 2 && SP[root_] == NIL && SP[goal_] == NIL, "C17.hybrid clear() leaves a graph of exactly a fresh root and a fresh goal");
    REACH("cleared");
}
