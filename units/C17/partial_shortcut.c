/* C17 -- PathSimplifier::partialShortcutPath, the acceptance test of one attempt: a shortcut between two points of the path is accepted only if its cost is not
 * worse than the cost ALONG the path between them.  The routine adds up the along-path cost from pieces; for an additive objective with non-negative motion
 * costs it must never OVER-estimate it (an over-estimate accepts shortcuts that make the path worse): every piece it adds is a forward sub-motion of the path
 * that lies between the two points, and no stretch is counted twice.  (Under-estimates only reject good shortcuts.)
 * Path positions are integers: vertex k is at 3k, a point sampled inside the motion (pos, pos+1) at 3 pos + 1.  motionCost(a, b) records the stretch [a, b].
 * Bounded: paths of <= 6 states. */
#include <stdbool.h>
#include <stddef.h>
#define NSEG 8
#define REACH(msg) __CPROVER_assert(0, "REACH " msg)
#define SWAP_(a, b) do { __typeof__(a) t_ = (a); (a) = (b); (b) = t_; } while (0)
bool nondet_bool(void);
int seg_a[NSEG], seg_b[NSEG]; unsigned nseg; bool better_called; bool BETTER_RET; bool accepted; int cmp_along_id, cmp_short_id;
#define ST(k) (3 * (int)(k))
static double MC(int a, int b) { __CPROVER_assert(nseg < NSEG, "model capacity"); seg_a[nseg] = a; seg_b[nseg] = b; nseg++; return 1000.0 + (double)(nseg - 1); }   /* cost token of the piece */
unsigned combined_mask;
static double COMB(double acc, double piece) { if (piece >= 1000.0) combined_mask |= 1u << (unsigned)(piece - 1000.0); return 1.0; }
static bool BETTER(double along, double shortcut) { better_called = true; cmp_short_id = (int)(shortcut - 1000.0); return BETTER_RET; }
void ps_partial_accept(int pos0, int pos1, int index0, int index1, int s0, int s1, double t0, double t1)
{
    for (int once_ = 0; once_ < 1; ++once_)
/*@BODY partial_accept@*/
}
void h_partial_accept(void)
{
    int n, pos0, pos1, index0, index1; __CPROVER_assume(n >= 3 && n <= 6 && pos0 >= 0 && pos1 >= 0 && pos0 < n && pos1 < n);
    __CPROVER_assume((index0 == -1 && pos0 + 1 < n) || index0 == pos0); __CPROVER_assume((index1 == -1 && pos1 + 1 < n) || index1 == pos1);
    /* the attempt survived the "same segment" filter of the routine */
    __CPROVER_assume(!(pos0 == pos1 || index0 == pos1 || index1 == pos0 || pos0 + 1 == index1 || pos1 + 1 == index0 || (index0 >= 0 && index1 >= 0 && (index0 - index1 < 2 && index1 - index0 < 2))));
    int s0 = index0 >= 0 ? ST(index0) : ST(pos0) + 1, s1 = index1 >= 0 ? ST(index1) : ST(pos1) + 1;
    int lo = s0 < s1 ? s0 : s1, hi = s0 < s1 ? s1 : s0;
    nseg = 0; better_called = false; accepted = false; combined_mask = 0;
    ps_partial_accept(pos0, pos1, index0, index1, s0, s1, 0.25, 0.5);
    __CPROVER_assert(better_called && nseg >= 1 && cmp_short_id == (int)nseg - 1 && seg_a[nseg - 1] == lo && seg_b[nseg - 1] == hi, "the comparison is against the cost of the shortcut between exactly the two points, taken forward");
    for (unsigned k = 0; k + 1 < NSEG; k++) if (k + 1 < nseg && (combined_mask & (1u << k)))
    {
        __CPROVER_assert(seg_a[k] < seg_b[k] && seg_a[k] >= lo && seg_b[k] <= hi, "C17.cost every piece of the along-path cost is a forward stretch of the path between the two points");
        for (unsigned l = 0; l < k; l++) if (combined_mask & (1u << l))
            __CPROVER_assert(seg_b[l] <= seg_a[k] || seg_b[k] <= seg_a[l], "C17.cost no stretch of the path is counted twice");
    }
    if (index0 < 0 && index1 < 0) REACH("two interior points"); if (nseg >= 4) REACH("several whole motions in between");
}
