/* C17 / C01: PathGeometric::interpolate(unsigned), subdivide(), check().  The vector of states is the identity sequence
 * (original vertex k is "state k"); only sizes, positions and the ghost vertex G are tracked; unbounded (loop contracts). */
#include <stddef.h>
#include <stdbool.h>
size_t states__size, newStates_size;
size_t G; int countG; size_t posG;            /* ghost original vertex: how often and where it was put into the new path */
int allocs; int interpG;
#define REACH(tag) __CPROVER_assert(0, "REACH " tag)
void NS_PUSH_ORIG(size_t k)
__CPROVER_requires(newStates_size < 4000000 && countG < 100)
__CPROVER_assigns(newStates_size, countG, posG)
__CPROVER_ensures(newStates_size == __CPROVER_old(newStates_size) + 1)
__CPROVER_ensures(k == G ? (countG == __CPROVER_old(countG) + 1 && posG == __CPROVER_old(newStates_size)) : (countG == __CPROVER_old(countG) && posG == __CPROVER_old(posG)));
int FLOOR_INT(void)      /* (int)floor(0.5 + (double)count * segmentLength / remainingLength): any int below INT_MAX (NaN/overflow of the operand: see assumptions) */
__CPROVER_requires(1) __CPROVER_assigns() __CPROVER_ensures(__CPROVER_return_value < 2147483647);
double DIST(void) __CPROVER_requires(1) __CPROVER_assigns() __CPROVER_ensures(1);
size_t getMotionStates_stub(int ns)      /* block.size() after getMotionStates(s1, s2, block, ns, false, true): exactly ns interior states (C17 getMotionStates contract) */
__CPROVER_requires(ns >= 1) __CPROVER_assigns() __CPROVER_ensures(__CPROVER_return_value == (size_t)ns);
void NS_PUSH_NEW(void)   /* a freshly allocated interpolated state */
__CPROVER_requires(newStates_size < 4000000 && allocs < 2000000)
__CPROVER_assigns(newStates_size, allocs) __CPROVER_ensures(newStates_size == __CPROVER_old(newStates_size) + 1 && allocs == __CPROVER_old(allocs) + 1);

void pg_interpolate(unsigned int requestCount)
__CPROVER_requires(states__size <= 1000000 && requestCount <= 2000000 && newStates_size == 0 && G < states__size && countG == 0)
__CPROVER_assigns(newStates_size, states__size, countG, posG)
/* C17.count too few requested / degenerate path: unchanged; otherwise exactly the requested number of states */
__CPROVER_ensures((requestCount < __CPROVER_old(states__size) || __CPROVER_old(states__size) < 2) ==> (states__size == __CPROVER_old(states__size) && countG == 0))
__CPROVER_ensures(!(requestCount < __CPROVER_old(states__size) || __CPROVER_old(states__size) < 2) ==> states__size == requestCount)
/* C17.order every original vertex is kept exactly once, not earlier than its original index (order preserved) */
__CPROVER_ensures(!(requestCount < __CPROVER_old(states__size) || __CPROVER_old(states__size) < 2) ==> (countG == 1 && posG >= G && posG < requestCount))
__CPROVER_ensures((!(requestCount < __CPROVER_old(states__size) || __CPROVER_old(states__size) < 2) && G == 0) ==> posG == 0)
__CPROVER_ensures((!(requestCount < __CPROVER_old(states__size) || __CPROVER_old(states__size) < 2) && G + 1 == __CPROVER_old(states__size)) ==> posG + 1 == requestCount)
/*@BODY interpolate@*/

void pg_subdivide(void)
__CPROVER_requires(states__size <= 1000000 && newStates_size == 0 && G < states__size && countG == 0 && allocs == 0)
__CPROVER_assigns(newStates_size, states__size, countG, posG, allocs)
__CPROVER_ensures(__CPROVER_old(states__size) < 2 ==> (states__size == __CPROVER_old(states__size) && allocs == 0))
/* C17.subdivide 2n-1 states, original vertex k at position 2k, one new state allocated per motion */
__CPROVER_ensures(__CPROVER_old(states__size) >= 2 ==> (states__size == 2 * __CPROVER_old(states__size) - 1 && countG == 1 && posG == 2 * G && allocs == (int)__CPROVER_old(states__size) - 1))
/*@BODY subdivide@*/

/* ---- check(): C01 ---- */
bool VALID0, MVG; bool checkedG, any_bad; bool setup_done;
bool isValid0(void) __CPROVER_requires(1) __CPROVER_assigns(any_bad) __CPROVER_ensures(__CPROVER_return_value == VALID0 && any_bad == (__CPROVER_old(any_bad) || !VALID0));
bool checkMotionIdx(size_t a, size_t b)
__CPROVER_requires(a + 1 == b && b < states__size)     /* only consecutive pairs of the path are checked */
__CPROVER_assigns(checkedG, any_bad)
__CPROVER_ensures(a == G ? (checkedG && __CPROVER_return_value == MVG) : checkedG == __CPROVER_old(checkedG))
__CPROVER_ensures(any_bad == (__CPROVER_old(any_bad) || !__CPROVER_return_value));
bool pg_check(void)
__CPROVER_requires(states__size <= 1000000 && (states__size < 2 || (G < states__size && G + 1 < states__size)) && !checkedG && !any_bad)
__CPROVER_assigns(checkedG, any_bad)
/* C01.check a path passes exactly when its first state is valid and every consecutive motion passes the motion check */
__CPROVER_ensures((__CPROVER_return_value && states__size > 0) ==> VALID0)
__CPROVER_ensures((__CPROVER_return_value && states__size >= 2) ==> (checkedG && MVG))
__CPROVER_ensures(!__CPROVER_return_value ==> any_bad)
/*@BODY check@*/

void h_interpolate(void) { unsigned r; size_t s0 = states__size; pg_interpolate(r); if (r > s0 + 5 && s0 > 3) REACH("densified"); if (r < s0) REACH("too few requested"); }
void h_subdivide(void) { pg_subdivide(); if (states__size > 5) REACH("subdivided"); }
void h_check(void) { bool r = pg_check(); if (r && states__size > 3) REACH("valid path"); if (!r) REACH("invalid"); if (states__size == 0) REACH("empty"); if (states__size == 1) REACH("single"); }
