/* C17: PathSimplifier::ropeShortcutPath, as two INDUCTIVE STEPS from an arbitrary path: (1) the densification of one motion (interpolated
 * states every delta), (2) the block that replaces the stretch i..j by the straight motion once the motion check approved it.  Checked: first/last state kept; every motion of the result lies on a straight
 * motion that was in the input path or was approved by the motion check for exactly its two end states (interpolated states split such a
 * motion, they never bridge two); a stretch is erased only for an approved motion that is cheaper than the TRUE cost along the path (the
 * cumulative cost vector is kept in step with the path through erases and inserts); erased states are freed once when owned; every index
 * is in range.  The two blocks are extracted as regions; each starts from an arbitrary path that satisfies the invariant (all motions validated,
 * cumulative costs true) and must re-establish it.  Bounded: paths of <= NMAX states, <= 2 interpolated states per motion. */
#include <stddef.h>
#include <stdbool.h>
#include <math.h>
#ifndef NMAX
#define NMAX 3
#endif
#ifndef MAXAPPROVALS
#define MAXAPPROVALS 1
#endif
#define CAP (NMAX + 2)
#define NREF (NMAX + 4)
#define NC (NMAX + 4)
#define REACH(tag) __CPROVER_assert(0, "REACH " tag)
typedef unsigned SRef;
SRef states[CAP]; size_t states_size; long costs[CAP]; size_t costs_size;
unsigned S_cid[NREF]; bool S_alive[NREF]; SRef next_s; unsigned next_cid; int frees, allocs, approvals; bool freeStates_;
bool ADJ_OK[CAP]; unsigned SEG_A[CAP], SEG_B[CAP];       /* adjacency k = (states[k], states[k+1]) lies on the validated straight motion SEG_A -> SEG_B */
long MC[NC][NC];
struct { unsigned a, b, out; bool used; } IL; struct { unsigned a, b; bool ok; } LASTCM; struct { unsigned a, b; long v; bool used; } LASTMC;
unsigned first_cid, last_cid; size_t n0;
bool nondet_bool(void); unsigned nondet_unsigned(void); double nondet_double(void);
static size_t IDX_S(size_t i) { __CPROVER_assert(i < states_size, "C17.range path index within the path"); return i; }
static size_t IDX_C(size_t i) { __CPROVER_assert(i < costs_size, "C17.range cost index within the vector"); return i; }
static long mc(unsigned a, unsigned b) { __CPROVER_assert(a < NC && b < NC, "cid range"); long v = MC[a][b]; __CPROVER_assume(v >= 0 && v <= (1L << 40)); return v; }
static long MCOST(SRef a, SRef b) { __CPROVER_assert(S_alive[a] && S_alive[b], "cost of live states"); long v = mc(S_cid[a], S_cid[b]); LASTMC.a = S_cid[a]; LASTMC.b = S_cid[b]; LASTMC.v = v; LASTMC.used = 1; return v; }
#define COMBINE(a, b) ((a) + (b))
#define SUBTRACT(a, b) ((a) - (b))
#define BETTER(a, b) ((a) < (b))
static double DIST(SRef a, SRef b) { double d = nondet_double(); __CPROVER_assume(d >= 0.0 && d <= 1e6); return d; }
static size_t FLOORDIV(double dist, double delta) { size_t r = nondet_unsigned(); __CPROVER_assume(r <= 2); return r; }   /* floor(dist / delta): bounded to <= 2 interpolated states per motion */
static SRef ALLOC(void) { __CPROVER_assert(next_s < NREF, "pool"); SRef r = next_s++; S_alive[r] = 1; S_cid[r] = 0; allocs++; return r; }
static void FREE(SRef s) { __CPROVER_assert(s < NREF && S_alive[s], "C17.mem a state is freed at most once"); S_alive[s] = 0; frees++; }
static void INTERP(SRef a, SRef b, double t, SRef out) { __CPROVER_assert(S_alive[a] && S_alive[b] && S_alive[out] && next_cid < NC, "interpolate on live states"); IL.a = S_cid[a]; IL.b = S_cid[b]; S_cid[out] = next_cid++; IL.out = S_cid[out]; IL.used = 1; }
static bool CM(SRef a, SRef b) { bool r = nondet_bool(); if (r) approvals++; LASTCM.a = S_cid[a]; LASTCM.b = S_cid[b]; LASTCM.ok = r; return r; }
static void INSERT(size_t pos, SRef s)     /* states.insert(begin()+pos, s): s must split ONE validated straight motion */
{
    __CPROVER_assert(pos >= 1 && pos < states_size && states_size < CAP, "C17.range insert position inside the path");
    __CPROVER_assert(IL.used && IL.out == S_cid[s] && ADJ_OK[pos - 1] && SEG_A[pos - 1] == IL.a && SEG_B[pos - 1] == IL.b && S_cid[states[pos]] == IL.b, "C17.validated an interpolated state is inserted into the validated straight motion it was interpolated on");
    for (size_t k = CAP - 1; k > 0; k--) if (k > pos && k <= states_size) { states[k] = states[k - 1]; ADJ_OK[k] = ADJ_OK[k - 1]; SEG_A[k] = SEG_A[k - 1]; SEG_B[k] = SEG_B[k - 1]; }
    states[pos] = s; ADJ_OK[pos] = ADJ_OK[pos - 1]; SEG_A[pos] = SEG_A[pos - 1]; SEG_B[pos] = SEG_B[pos - 1]; states_size++; IL.used = 0;
}
static long true_along(size_t i, size_t j) { long c = 0; for (size_t k = 0; k < CAP; k++) if (k >= i && k < j && k + 1 < states_size) c += mc(S_cid[states[k]], S_cid[states[k + 1]]); return c; }
static void ERASE(size_t from, size_t to)   /* states.erase(begin()+from, begin()+to): the stretch (from-1 .. to) is replaced by one straight motion */
{
    __CPROVER_assert(from >= 1 && from <= to && to < states_size, "C17.range erase keeps the first and the last state and stays in range");
    unsigned a = S_cid[states[from - 1]], b = S_cid[states[to]];
    __CPROVER_assert(LASTCM.ok && LASTCM.a == a && LASTCM.b == b, "C17.validated a stretch is replaced only by a motion the motion check approved for exactly these two states");
    __CPROVER_assert(mc(a, b) < true_along(from - 1, to), "C17.cost a stretch is replaced only by a motion that is cheaper than the true cost along the path");
    size_t n = to - from;
    for (size_t k = 0; k < CAP; k++) if (k >= from && k + n < states_size) { states[k] = states[k + n]; ADJ_OK[k] = ADJ_OK[k + n]; SEG_A[k] = SEG_A[k + n]; SEG_B[k] = SEG_B[k + n]; }
    states_size -= n; ADJ_OK[from - 1] = 1; SEG_A[from - 1] = a; SEG_B[from - 1] = b;
}
static void INIT_COSTS(void) { costs_size = states_size; for (size_t k = 0; k < CAP; k++) costs[k] = 0; }
static void RESIZE_COSTS(void) { for (size_t k = 0; k < CAP; k++) if (k >= costs_size) costs[k] = 0; costs_size = states_size; }

size_t i, j; bool result;
int rope_densify_step(double delta)
/*@BODY rope_densify@*/
int rope_shortcut_block(double delta, long equivalenceCost)
/*@BODY rope_shortcut@*/

static long true_prefix(size_t k) { return true_along(0, k); }
static void any_path(void)
{
    n0 = nondet_unsigned(); __CPROVER_assume(n0 >= 3 && n0 <= NMAX); states_size = n0; next_s = 1; next_cid = 1; frees = allocs = approvals = 0; freeStates_ = nondet_bool(); IL.used = 0; LASTCM.ok = 0; LASTMC.used = 0;
    __CPROVER_array_set(S_alive, 0);
    for (size_t k = 0; k < CAP; k++) if (k < n0) { SRef s = next_s++; states[k] = s; S_alive[s] = 1; S_cid[s] = next_cid++; }
    for (size_t k = 0; k < CAP; k++) if (k + 1 < n0) { ADJ_OK[k] = 1; SEG_A[k] = S_cid[states[k]]; SEG_B[k] = S_cid[states[k + 1]]; }
    first_cid = S_cid[states[0]]; last_cid = S_cid[states[n0 - 1]];
}
static void check_invariant(void)
{
    __CPROVER_assert(states_size >= 2 && states_size <= CAP, "the path keeps at least its end points");
    __CPROVER_assert(S_cid[states[0]] == first_cid && S_cid[states[states_size - 1]] == last_cid, "C17.ends the first and the last state are kept");
    for (size_t k = 0; k < CAP; k++) if (k + 1 < states_size) __CPROVER_assert(ADJ_OK[k], "C17.validated every motion of the result lies on a straight motion of the input path or on one the motion check approved");
    for (size_t k = 0; k < CAP; k++) if (k < states_size) __CPROVER_assert(states[k] < NREF && S_alive[states[k]], "C17.mem no state of the resulting path was freed");
    for (size_t k = 0; k < CAP; k++) for (size_t l = 0; l < CAP; l++) if (k < l && l < states_size) __CPROVER_assert(states[k] != states[l], "no state appears twice");
}
void h_rope_densify(void)
{
    any_path(); i = nondet_unsigned(); __CPROVER_assume(i + 1 < states_size); __CPROVER_assume(n0 + 2 <= CAP);
    double delta = nondet_double(); __CPROVER_assume(delta > 1e-3 && delta <= 1e6); size_t i0 = i, before = states_size;
    rope_densify_step(delta);
    check_invariant();
    __CPROVER_assert(states_size - before == i - i0 && allocs == (int)(states_size - before) && frees == 0, "the loop index skips exactly the interpolated states that were inserted");
    if (states_size == before + 2) REACH("two states inserted"); if (states_size == before) REACH("short motion left alone");
}
void h_rope_shortcut(void)
{
    any_path(); i = nondet_unsigned(); j = nondet_unsigned(); __CPROVER_assume(i + 1 < j && j < states_size && n0 <= NMAX); result = nondet_bool();
    costs_size = states_size; for (size_t k = 0; k < CAP; k++) if (k < states_size) __CPROVER_assume(costs[k] == true_prefix(k));      /* invariant: cumulative costs are true */
    LASTCM.a = S_cid[states[i]]; LASTCM.b = S_cid[states[j]]; LASTCM.ok = 1;                                                   /* we are inside `if (checkMotion(states[i], states[j]))` */
    double delta = nondet_double(); __CPROVER_assume(delta > 1e-3 && delta <= 1e6); long eq = nondet_unsigned() % 1000; size_t before = states_size; bool res0 = result;
    int rc = rope_shortcut_block(delta, eq);
    check_invariant();
    __CPROVER_assert(freeStates_ ? allocs - frees == (int)states_size - (int)before : frees == 0, "C17.mem erased states are freed exactly once when the simplifier owns them, never otherwise");
    if (states_size != before || allocs) { __CPROVER_assert(result && costs_size == states_size, "a modification reports success and resizes the cost vector");
        for (size_t k = 0; k < CAP; k++) if (k < states_size) __CPROVER_assert(costs[k] == true_prefix(k), "C17.cost the cumulative cost vector is true again after the shortcut (later decisions compare against it)"); }
    else __CPROVER_assert(result == res0, "no modification, no change of the result");
    if (allocs) REACH("shortcut with interpolated states"); if (states_size < before && !allocs) REACH("plain shortcut"); if (states_size == before && !allocs) REACH("not cheaper, left alone");
}
