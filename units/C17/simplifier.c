/* C17: PathSimplifier::reduceVertices / collapseCloseVertices / smoothBSpline -- "keeps the first and last state, introduces only
 * motions it has validated, frees what it drops exactly once".  The path is an array of state references; a state carries a ghost
 * content id; ADJ[k] says that the motion between path positions k and k+1 is validated: it was so in the input path, or the motion check
 * approved exactly these two contents (approval log of the last calls).  Bounded: <= NMAX states, few steps; everything else symbolic. */
#include <stddef.h>
#include <stdbool.h>
#include <stdlib.h>
#ifndef SMOOTH_N0
#define SMOOTH_N0 3
#endif
#ifndef NMAX
#define NMAX 5
#endif
#ifndef CAP
#define CAP NMAX
#endif
#ifndef NREF
#define NREF (CAP + 3)
#endif
#define REACH(tag) __CPROVER_assert(0, "REACH " tag)
#define INFD (__builtin_inf())
#define MAXI(a, b) ((a) > (b) ? (a) : (b))
#define MINI(a, b) ((a) < (b) ? (a) : (b))
#define SWAPI(a, b) do { int t_ = (a); (a) = (b); (b) = t_; } while (0)
typedef unsigned SRef;
SRef states[CAP]; size_t states_size; bool ADJ[CAP];
long S_cid[NREF]; bool S_alive[NREF]; bool S_inpath_free[NREF]; SRef next_s; long next_cid; int frees, allocs; bool freeStates_;
struct { long a, b; bool ok; } LOG[4]; int log_n;    /* approvals of the motion check, most recent first */
bool nondet_bool(void); int nondet_int(void); unsigned nondet_unsigned(void); double nondet_double(void);
static bool approved(long a, long b) { for (int k = 0; k < 4; k++) if (k < log_n && LOG[k].ok && ((LOG[k].a == a && LOG[k].b == b))) return 1; return 0; }
static bool CM(SRef a, SRef b) { __CPROVER_assert(a < NREF && b < NREF && S_alive[a] && S_alive[b], "motion check on live states"); bool r = nondet_bool(); for (int k = 3; k > 0; k--) LOG[k] = LOG[k - 1]; LOG[0].a = S_cid[a]; LOG[0].b = S_cid[b]; LOG[0].ok = r; if (log_n < 4) log_n++; return r; }
static bool ISVALID(SRef a) { return nondet_bool(); }
static SRef ALLOC(void) { __CPROVER_assert(next_s < NREF, "pool"); SRef r = next_s++; S_alive[r] = 1; S_cid[r] = 0; allocs++; return r; }
static void FREE(SRef s) { __CPROVER_assert(s < NREF && S_alive[s], "C17.mem a state is freed at most once"); S_alive[s] = 0; frees++; }
static void INTERP(SRef a, SRef b, SRef out) { __CPROVER_assert(S_alive[a] && S_alive[b] && S_alive[out], "interpolate on live states"); bool in_path = 0; for (size_t k = 0; k < CAP; k++) if (k < states_size && states[k] == out) in_path = 1; __CPROVER_assert(!in_path, "path states are only changed through copyState"); S_cid[out] = next_cid++; }
static double DIST(SRef a, SRef b) { double d = nondet_double(); __CPROVER_assume(d >= 0.0); return d; }
static void ERASE(int from, int to)      /* states.erase(begin()+from, begin()+to): the new adjacency (from-1, from) must have been approved */
{
    __CPROVER_assert(from >= 1 && from <= to && (size_t)to < states_size, "C17.range erase keeps the first and the last state and stays in range");
    bool ok = approved(S_cid[states[from - 1]], S_cid[states[to]]);
    size_t n = (size_t)(to - from);
    for (size_t k = 0; k < CAP; k++) if (k >= (size_t)from && k + n < states_size) { states[k] = states[k + n]; ADJ[k] = ADJ[k + n]; }
    states_size -= n; ADJ[from - 1] = ok || n == 0 && ADJ[from - 1];
}
static void KEEP_ENDPOINTS(void) { ERASE(1, (int)states_size - 1); }
static void COPY_INTO_PATH(unsigned i, SRef src)   /* si->copyState(states[i], src): both adjacencies of position i must have been approved for the new content */
{
    __CPROVER_assert(i >= 1 && i + 1 < states_size, "C17.ends the first and last state are never overwritten");
    S_cid[states[i]] = S_cid[src];
    ADJ[i - 1] = approved(S_cid[states[i - 1]], S_cid[src]); ADJ[i] = approved(S_cid[src], S_cid[states[i + 1]]);
}
static void SUBDIVIDE(void)   /* path.subdivide(): a midpoint on every motion (verified as a unit of its own); sub-motions of a validated motion are validated */
{
    if (states_size < 2) return; __CPROVER_assert(2 * states_size - 1 <= CAP, "capacity");
    size_t n = states_size;
    for (size_t k = CAP; k-- > 0;) if (k < n) { states[2 * k] = states[k]; if (k + 1 < n) { ADJ[2 * k] = ADJ[k]; ADJ[2 * k + 1] = ADJ[k]; } }
    for (size_t k = 0; k < CAP; k++) if (k + 1 < n) { SRef m = ALLOC(); S_cid[m] = next_cid++; states[2 * k + 1] = m; }
    states_size = 2 * n - 1;
}
static int UNIFORM_INT(int a, int b) { __CPROVER_assert(a <= b, "uniformInt(lower <= upper)"); int r = nondet_int(); __CPROVER_assume(r >= a && r <= b); return r; }
static int FLOORI(void) { int r = nondet_int(); __CPROVER_assume(r >= 0 && r < 1000); return r; }
double DMAP[NREF][NREF];

bool ps_reduceVertices(unsigned int maxSteps, unsigned int maxEmptySteps, double rangeRatio)
/*@BODY reduceVertices@*/
bool ps_collapseCloseVertices(unsigned int maxSteps, unsigned int maxEmptySteps)
/*@BODY collapseCloseVertices@*/
void ps_smoothBSpline(unsigned int maxSteps, double minChange)
/*@BODY smoothBSpline@*/

long first_cid, last_cid; size_t n0;
static void any_path(size_t maxn)
{
    n0 = nondet_unsigned(); __CPROVER_assume(n0 <= maxn); states_size = n0; next_s = 1; next_cid = 1; frees = allocs = 0; log_n = 0; freeStates_ = nondet_bool();
    __CPROVER_array_set(S_alive, 0);
    for (size_t k = 0; k < CAP; k++) if (k < n0) { SRef s = next_s++; states[k] = s; S_alive[s] = 1; S_cid[s] = next_cid++; ADJ[k] = 1; }
    first_cid = n0 ? S_cid[states[0]] : 0; last_cid = n0 ? S_cid[states[n0 - 1]] : 0;
}
static void check_path(bool result_known, bool result)
{
    __CPROVER_assert(states_size <= CAP && (n0 == 0 ? states_size == 0 : states_size >= (n0 >= 2 ? 2 : 1)), "the path keeps at least its end points");
    if (n0) __CPROVER_assert(S_cid[states[0]] == first_cid && S_cid[states[states_size - 1]] == last_cid, "C17.ends the first and the last state are kept");
    for (size_t k = 0; k < CAP; k++) if (k + 1 < states_size) __CPROVER_assert(ADJ[k], "C17.validated every motion of the resulting path was in the input path or was approved by the motion check for exactly these two states");
    for (size_t k = 0; k < CAP; k++) if (k < states_size) __CPROVER_assert(states[k] < NREF && S_alive[states[k]], "C17.mem no state of the resulting path was freed");
    for (size_t k = 0; k < CAP; k++) for (size_t l = 0; l < CAP; l++) if (k < l && l < states_size) __CPROVER_assert(states[k] != states[l], "no state appears twice");
}
void h_reduceVertices(void)
{
    any_path(NMAX); unsigned ms = nondet_unsigned(), me = nondet_unsigned(); __CPROVER_assume(ms <= 2 && me <= 2); double rr = nondet_double(); size_t before = states_size;
    bool r = ps_reduceVertices(ms, me, rr);
    check_path(1, r);
    __CPROVER_assert(r == (states_size < before), "reports success exactly when vertices were removed");
    __CPROVER_assert(frees == (freeStates_ ? (int)(before - states_size) : 0), "C17.mem removed states are freed exactly once when the simplifier owns them, never otherwise");
    if (r && states_size == 2 && before > 3) REACH("collapsed to the end points"); if (r && states_size > 2) REACH("partial reduction"); if (!r && before >= 3) REACH("nothing removed");
}
void h_collapseCloseVertices(void)
{
    any_path(NMAX); unsigned ms = nondet_unsigned(), me = nondet_unsigned(); __CPROVER_assume(ms <= 2 && me <= 2); size_t before = states_size;
    bool r = ps_collapseCloseVertices(ms, me);
    check_path(1, r);
    __CPROVER_assert(r == (states_size < before), "reports success exactly when vertices were removed");
    __CPROVER_assert(frees == (freeStates_ ? (int)(before - states_size) : 0), "C17.mem removed states are freed exactly once when the simplifier owns them");
    if (r) REACH("collapsed"); if (!r && before >= 3) REACH("nothing removed");
}
void h_smoothBSpline(void)
{
    any_path(SMOOTH_N0); unsigned ms = nondet_unsigned(); __CPROVER_assume(ms <= 1); double mc = nondet_double(); __CPROVER_assume(mc == mc); size_t before = states_size;
    ps_smoothBSpline(ms, mc);
    check_path(0, 0);
    __CPROVER_assert(allocs - frees == (int)(states_size - before), "C17.mem the two scratch states are freed; only subdivision midpoints stay allocated");
    if (states_size > before) REACH("subdivided"); if (before < 3) REACH("too short");
}
