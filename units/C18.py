"""C18 -- termination conditions mean exactly what they say."""
import re
PROPERTY = "C18"
LEVEL = "proof"
PTC = "src/ompl/base/src/PlannerTerminationCondition.cpp"
ITC = "src/ompl/base/terminationconditions/src/IterationTerminationCondition.cpp"
CCT = "src/ompl/base/terminationconditions/src/CostConvergenceTerminationCondition.cpp"


def _lambda(m):
    """return PlannerTerminationCondition([caps](...) mutable { -> { init-captures as locals; for (k_...) {"""
    caps = m.group(1)
    decl = []
    for c in re.split(r",(?![^()]*\))", caps):
        c = c.strip()
        mm = re.match(r"(\w+)\s*=\s*(.+)$", c)
        if mm:
            decl.append("__typeof__(%s) %s = %s;" % (mm.group(2), mm.group(1), mm.group(2)))
    return "{ n_lambdas++; " + " ".join(decl) + " for (k_ = 0; k_ < 2; ++k_) {"


LAMBDA_RULES = [
    (r"return PlannerTerminationCondition\(\[([^\]]*)\]\s*(?:\([^()]*\)\s*)?(?:mutable\s*)?\{", _lambda, 1),
    (r"\},\s*interval\);", "} PERIOD_USED = interval; }", 0),
    (r"\}\);", "} }", 0),
    (r"return ([^;]+);", r"{ RES[k_] = (\1); continue; }", 0),
    (r"time::now\(\)", "time_now()", 0),
    (r"time::seconds\(", "time_seconds(", 0),
    (r"const time::point endTime\(([^;]+)\);", r"const TimeT endTime = (\1);", 0),
    (r"pdef->hasExactSolution\(\)", "hasExactSolution()", 0),
]


def L(name, sig):
    return dict(name=name, file=PTC, sig=sig, rules=LAMBDA_RULES, loops={"allow_uncontracted": True})


LAMBDA_SOURCES = [
    L("never", r"ompl::base::PlannerTerminationCondition ompl::base::plannerNonTerminatingCondition\(\)"),
    L("always", r"ompl::base::PlannerTerminationCondition ompl::base::plannerAlwaysTerminatingCondition\(\)"),
    L("or_", r"ompl::base::plannerOrTerminationCondition\(const PlannerTerminationCondition &c1,\s*const PlannerTerminationCondition &c2\)"),
    L("and_", r"ompl::base::plannerAndTerminationCondition\(const PlannerTerminationCondition &c1,\s*const PlannerTerminationCondition &c2\)"),
    L("timed", r"ompl::base::timedPlannerTerminationCondition\(time::duration duration\)"),
    L("timed_interval", r"ompl::base::timedPlannerTerminationCondition\(double duration, double interval\)"),
    L("exact", r"ompl::base::exactSolnPlannerTerminationCondition\(const ompl::base::ProblemDefinitionPtr\s*&\s*pdef\)"),
]
FLAGS = ["--bounds-check", "--pointer-check", "--signed-overflow-check", "--conversion-check", "--div-by-zero-check", "--no-malloc-may-fail", "--object-bits", "12"]
PFLAGS = ["--bounds-check", "--pointer-check", "--signed-overflow-check", "--conversion-check", "--div-by-zero-check"]

IMPL_SOURCES = [
    dict(name="eval", file=PTC, sig=r"\n\s+bool eval\(\) const", rules=[(r"\bfn_\(\)", "FN()", 0)], loops={}),
    dict(name="terminate", file=PTC, sig=r"\n\s+void terminate\(\) const", rules=[], loops={}),
]
ITER_SOURCES = [
    dict(name="eval", file=ITC, sig=r"bool ompl::base::IterationTerminationCondition::eval\(\)", rules=[], loops={}),
    dict(name="reset", file=ITC, sig=r"void ompl::base::IterationTerminationCondition::reset\(\)", rules=[], loops={}),
]
UNITS = [
    dict(name="c18_impl_eval", template="C18/impl.c", sources=IMPL_SOURCES, enforce=["impl_eval"], replace=["FN"], flags=FLAGS,
         functions=["PlannerTerminationCondition::PlannerTerminationConditionImpl::eval"],
         canaries=[dict(name="periodic_before_terminate", where="body:eval", rx=r"if \(terminate_\)\s*return true;", repl="")]),
    dict(name="c18_impl_terminate", template="C18/impl.c", entry="harness_terminate", sources=IMPL_SOURCES, enforce=["impl_terminate"], replace=[], flags=FLAGS,
         functions=["PlannerTerminationCondition::PlannerTerminationConditionImpl::terminate"],
         canaries=[dict(name="terminate_noop", where="body:terminate", rx=r"terminate_ = true;", repl="")]),
    dict(name="c18_iteration_eval", template="C18/iteration.c", sources=ITER_SOURCES, enforce=["iter_eval"], replace=[], flags=FLAGS,
         functions=["IterationTerminationCondition::eval"],
         canaries=[dict(name="ge_instead_of_gt", where="body:eval", rx=r"timesCalled_ > maxCalls_", repl="timesCalled_ >= maxCalls_")]),
    dict(name="c18_iteration_reset", template="C18/iteration.c", entry="harness_reset", sources=ITER_SOURCES, enforce=["iter_reset"], replace=[], flags=FLAGS,
         functions=["IterationTerminationCondition::reset"]),
    dict(name="c18_costconvergence", template="C18/costconv.c", enforce=["processNewSolution"], replace=["FMUL", "FDIV", "do_terminate"], flags=FLAGS,
         functions=["CostConvergenceTerminationCondition::processNewSolution"], backend="kissat", timeout=600,
         sources=[dict(name="processNewSolution", file=CCT,
                       sig=r"void ompl::base::CostConvergenceTerminationCondition::processNewSolution\(const ompl::base::Cost solutionCost\)",
                       rules=[(r"OMPL_DEBUG\([^;]*\);", "", 0),
                              (r"std::min\(", "MIN_SZ(", 0),
                              (r"solutionCost\.value\(\)", "solutionCost_value", 0),
                              (r"\((\w+ - 1)\) \* (\w+)", r"FMUL((double)(\1), \2)", 0),
                              (r"\(1\. ([-+]) (\w+)\) \* (\w+)", r"FMUL((1. \1 \2), \3)", 0),
                              (r"\((FMUL\([^;]*?\) \+ [\w.()]+)\) / (\w+);", r"FDIV((\1), (double)(\2));", 0),
                              (r"\bterminate\(\);", "do_terminate();", 0)],
                       loops={})],
         canaries=[dict(name="window_wrong_variable", where="body:processNewSolution", rx=r"solutions == solutionsWindow_", repl="solutions_ == solutionsWindow_"),
                   dict(name="threshold_from_new_average", where="body:processNewSolution", rx=r"averageCost_ = newCost;", repl="", defines={}),
                   ]),
]
for h in ("never", "always", "or", "and", "timed", "timed_interval", "exact"):
    UNITS.append(dict(name="c18_factory_" + h, template="C18/lambdas.c", mode="plain", entry="h_" + h, sources=LAMBDA_SOURCES,
                      flags=PFLAGS, unwind=4, functions=["ompl::base::" + {"never": "plannerNonTerminatingCondition", "always": "plannerAlwaysTerminatingCondition",
                                                                         "or": "plannerOrTerminationCondition", "and": "plannerAndTerminationCondition",
                                                                         "timed": "timedPlannerTerminationCondition(time::duration)",
                                                                         "timed_interval": "timedPlannerTerminationCondition(double,double)",
                                                                         "exact": "exactSolnPlannerTerminationCondition"}[h]],
                      level="proof", bound=""))
UNITS[-7]["canaries"] = [dict(name="never_true", where="body:never", rx=r"RES\[k_\] = \(false\)", repl="RES[k_] = (k_ == 1)")]
UNITS[-5]["canaries"] = [dict(name="or_is_and", where="body:or_", rx=r"c1\(\) \|\| c2\(\)", repl="c1() && c2()")]
UNITS[-3]["canaries"] = [dict(name="endtime_in_lambda", where="body:timed", rx=r"time_now\(\) > endTime", repl="time_now() >= endTime")]
UNITS[-1]["canaries"] = [dict(name="exact_negated", where="body:exact", rx=r"RES\[k_\] = \(hasExactSolution\(\)\)", repl="RES[k_] = (!hasExactSolution())")]

PL18 = "src/ompl/base/src/Planner.cpp"
PS_RULES = [(r"timedPlannerTerminationCondition\(solveTime\)", "TIMED1(solveTime)", 0), (r"timedPlannerTerminationCondition\(solveTime, ", "TIMED2(solveTime, ", 0), (r"std::min\(", "MIND(", 0),
            (r"PlannerTerminationCondition\(ptc, checkInterval\)", "PTC_FN(ptc, checkInterval)", 0), (r"\bsolve\(", "SOLVE(", 0)]
UNITS.append(dict(name="c18_planner_solve_overloads", template="C18/planner_solve.c", mode="plain", entry="h_planner_solve", flags=["--bounds-check", "--pointer-check"], level="proof", backend="cadical", timeout=300,
                  functions=["ompl::base::Planner::solve(double)", "ompl::base::Planner::solve(const PlannerTerminationConditionFn&, double)"],
                  sources=[dict(name="solve_time", file=PL18, sig=r"ompl::base::PlannerStatus ompl::base::Planner::solve\(double solveTime\)", rules=PS_RULES, loops={}),
                           dict(name="solve_fn", file=PL18, sig=r"ompl::base::PlannerStatus ompl::base::Planner::solve\(const PlannerTerminationConditionFn &ptc, double checkInterval\)", rules=PS_RULES, loops={})],
                  canaries=[dict(name="polling_period_not_capped", where="body:solve_time", rx=r"MIND\(solveTime / 100\.0, 0\.1\)", repl="solveTime / 100.0")]))

ASSUMPTIONS = [
    "IterationTerminationCondition: fewer than 2^32-1 evaluations (timesCalled_ is a 32-bit counter that wraps)",
    "time::now() is a monotone clock; time points/durations are modelled as 64-bit integer ticks below 2^60",
    "lambdas are rendered as: by-value captures initialised once, body evaluated twice in sequence (construction once, then two evaluations)",
    "CostConvergence: floating-point * and / are trusted external operations (arbitrary non-NaN result, functionally consistent); finite inputs; window >= 1; the numerical meaning of the running mean is not re-derived",
    "the periodic evaluation thread (start/stop, lag <= one period) is concurrency and is NOT covered; eval() is verified against the cached value",
]
TRUSTED = ["extraction rewrite tables of units/C18.py (incl. the lambda -> loop rendering)", "stubs in units/C18/*.c (FN, clock, c1/c2, hasExactSolution, FMUL, FDIV, do_terminate)", "CBMC 6.11 (DFCC, minisat/kissat)"]
NOT_COVERED = ["periodic evaluation thread: 'no later than one period afterwards' (concurrency)", "IterationTerminationCondition -> PlannerTerminationCondition conversion operator (std::function plumbing)",
               "CostConvergence constructor's callback registration", "Planner::solve(double): only which condition is built (duration, polling period); the timed lambda itself is the c18_factory_timed unit"]

C18_CPPS = ["src/ompl/base/src/PlannerTerminationCondition.cpp", "src/ompl/base/terminationconditions/src/IterationTerminationCondition.cpp",
            "src/ompl/base/terminationconditions/src/CostConvergenceTerminationCondition.cpp"]
# ---- the sequential skeleton around the evaluation thread (constructor, stopEvalThread, the thread body with volatile flag reads) ----
THR_RULES = [(r"thread_ = new std::thread\(\[this\]\s*\{\s*periodicEval\(\);\s*\}\);", "thread_ = NEW_THREAD();", 0), (r"thread_->join\(\);", "JOIN(thread_);", 0), (r"delete thread_;", "DELETE_THREAD(thread_);", 0),
             (r"\bnullptr\b", "NULL", 0), (r"\bstartEvalThread\(\)", "impl_startEvalThread()", 0)]
PE_RULES = [(r"time::duration s = time::seconds\(period_\);", "double s = period_;", 1), (r"count = 0\.5 \+ period_ / 0\.001;", "count = COUNT_FOR(period_);", 1),
            (r"s = time::seconds\(period_ / \(double\)count\);", "s = SLICE(period_, count);", 1), (r"std::this_thread::sleep_for\(s\);", "SLEEP(s);", 1),
            (r"\bterminate_\b", "RD_TERM()", 1), (r"\bsignalThreadStop_\b", "RD_STOP()", 1), (r"\bfn_\(\)", "FN()", 1)]
THR_SOURCES = [
    dict(name="ctor", file=PTC, sig=r"PlannerTerminationConditionImpl\(PlannerTerminationConditionFn fn, double period\)[^{]*", rules=THR_RULES, loops={}),
    dict(name="startEvalThread", file=PTC, sig=r"\n\s+void startEvalThread\(\)", rules=THR_RULES, loops={}),
    dict(name="stopEvalThread", file=PTC, sig=r"\n\s+void stopEvalThread\(\)", rules=THR_RULES, loops={}),
    dict(name="periodicEval", file=PTC, sig=r"\n\s+void periodicEval\(\)", rules=PE_RULES, loops={"allow_uncontracted": True}),
]
for h, needs, fn, bound, can in (
        ("ctor", ["ctor", "startEvalThread"], "PlannerTerminationConditionImpl::PlannerTerminationConditionImpl / startEvalThread", None, [dict(name="thread_only_for_long_periods", where="body:ctor", rx=r"period_ > 0\.0", repl="period_ > 0.001")]),
        ("stop", ["stopEvalThread"], "PlannerTerminationConditionImpl::stopEvalThread", None, [dict(name="join_before_flag", where="body:stopEvalThread", rx=r"signalThreadStop_ = true;(.*)\}\s*$", repl=r"\1 signalThreadStop_ = true; }")]),
        ("periodicEval", ["periodicEval"], "PlannerTerminationConditionImpl::periodicEval", "<= 12 flag reads, count <= 3", [dict(name="stops_once_true", where="body:periodicEval", rx=r"while \(!RD_TERM\(\) && !RD_STOP\(\)\)", repl="while (!RD_TERM() && !RD_STOP() && !evalValue_)")])):
    u = dict(name="c18_impl_" + h, template="C18/impl_thread.c", mode="plain", entry="h_" + h, sources=THR_SOURCES, needs=needs, flags=PFLAGS, backend="minisat", timeout=300, functions=["PlannerTerminationCondition::" + fn], canaries=can)
    if bound: u.update(level="bounded", bound=bound, unwind=16)
    else: u.update(level="proof")
    UNITS.append(u)

NATIVE = [dict(name="c18_native_oracle", driver="native/c18_native.cpp", link_ompl=True, unit_cpps=C18_CPPS, args=lambda tier, seed: ["all", seed], timeout=300)]


def replay(ur, scratch, seed):
    from vf import native as N, cbmc as C
    exe = N.build_driver("native/c18_native.cpp", scratch, link_ompl=True, unit_cpps=C18_CPPS)
    r = C.run_cmd([exe, "all", str(seed)], 300, env=N.run_env())
    return dict(found=(r["rc"] == 1), driver="native/c18_native.cpp", args=["all", seed], link_ompl=True, unit_cpps=C18_CPPS, output=r["out"][-2500:])
