/* C18: CostConvergenceTerminationCondition::processNewSolution.
 * Floating-point * and / are trusted external operations: FMUL/FDIV return an arbitrary non-NaN double,
 * functionally consistent per argument pair, and record (args, result) in ghost slots.  + - and the
 * comparisons stay bit-precise.  The postcondition pins down WHICH products/quotient enter the decision. */
#include <stdbool.h>
#include <stddef.h>
size_t solutions_, solutionsWindow_; double averageCost_, epsilon_;
int terminated;
double mul_a[4], mul_b[4], mul_r[4]; int n_mul;
double div_a[2], div_b[2], div_r[2]; int n_div;
double FMUL(double a, double b)
__CPROVER_requires(n_mul >= 0 && n_mul < 4 && a == a && b == b)
__CPROVER_assigns(mul_a[n_mul], mul_b[n_mul], mul_r[n_mul], n_mul)
__CPROVER_ensures(n_mul == __CPROVER_old(n_mul) + 1 && mul_a[n_mul - 1] == a && mul_b[n_mul - 1] == b && mul_r[n_mul - 1] == __CPROVER_return_value)
__CPROVER_ensures(__CPROVER_return_value == __CPROVER_return_value)
__CPROVER_ensures((n_mul > 1 && mul_a[0] == a && mul_b[0] == b) ==> __CPROVER_return_value == mul_r[0])
__CPROVER_ensures((n_mul > 2 && mul_a[1] == a && mul_b[1] == b) ==> __CPROVER_return_value == mul_r[1])
__CPROVER_ensures((n_mul > 3 && mul_a[2] == a && mul_b[2] == b) ==> __CPROVER_return_value == mul_r[2])
;
double FDIV(double a, double b)
__CPROVER_requires(n_div >= 0 && n_div < 2 && a == a && b == b && b != 0.0)
__CPROVER_assigns(div_a[n_div], div_b[n_div], div_r[n_div], n_div)
__CPROVER_ensures(n_div == __CPROVER_old(n_div) + 1 && div_a[n_div - 1] == a && div_b[n_div - 1] == b && div_r[n_div - 1] == __CPROVER_return_value)
__CPROVER_ensures(__CPROVER_return_value == __CPROVER_return_value)
;
void do_terminate(void)
__CPROVER_requires(terminated < 10)
__CPROVER_assigns(terminated)
__CPROVER_ensures(terminated == __CPROVER_old(terminated) + 1)
;
#define MIN_SZ(a, b) ((a) < (b) ? (a) : (b))
#define REACH(tag) __CPROVER_assert(0, "REACH " tag)
/* ghosts: pre-state */
double AVG0, COST; size_t S0;
#define K (MIN_SZ(S0 + 1, solutionsWindow_))
#define MM(x, y, j) (n_mul > (j) && ((mul_a[j] == (x) && mul_b[j] == (y)) || (mul_a[j] == (y) && mul_b[j] == (x))))
#define HAS_MUL(x, y) (MM(x, y, 0) || MM(x, y, 1) || MM(x, y, 2) || MM(x, y, 3))
#define MULR(x, y) (MM(x, y, 0) ? mul_r[0] : MM(x, y, 1) ? mul_r[1] : MM(x, y, 2) ? mul_r[2] : mul_r[3])
#define LOWER MULR(1. - epsilon_, AVG0)
#define UPPER MULR(1. + epsilon_, AVG0)
#define SUMV  (MULR((double)(K - 1), AVG0) + COST)

void processNewSolution(const double solutionCost_value)
__CPROVER_requires(solutionsWindow_ >= 1 && solutions_ < 1000000000000ul && terminated == 0 && n_mul == 0 && n_div == 0)
__CPROVER_requires(averageCost_ == averageCost_ && epsilon_ == epsilon_ && solutionCost_value == solutionCost_value)
__CPROVER_requires(averageCost_ - averageCost_ == 0.0 && epsilon_ - epsilon_ == 0.0 && solutionCost_value - solutionCost_value == 0.0)   /* finite */
__CPROVER_requires(AVG0 == averageCost_ && COST == solutionCost_value && S0 == solutions_)
__CPROVER_assigns(solutions_, averageCost_, terminated, n_mul, n_div, __CPROVER_object_whole(mul_a), __CPROVER_object_whole(mul_b), __CPROVER_object_whole(mul_r), __CPROVER_object_whole(div_a), __CPROVER_object_whole(div_b), __CPROVER_object_whole(div_r))
/* every reported solution is counted */
__CPROVER_ensures(solutions_ == S0 + 1)
/* the thresholds and the new average are computed from the PRE-state average */
__CPROVER_ensures(HAS_MUL(1. - epsilon_, AVG0) && HAS_MUL(1. + epsilon_, AVG0) && HAS_MUL((double)(K - 1), AVG0))
__CPROVER_ensures(n_div == 1 && div_a[0] == SUMV && div_b[0] == (double)K && averageCost_ == div_r[0])
/* C18.costconv fires at precisely the solution at which the window is full and the new average lies strictly inside the band */
__CPROVER_ensures((terminated == 1) == (K == solutionsWindow_ && averageCost_ > LOWER && averageCost_ < UPPER))
__CPROVER_ensures(terminated <= 1)
/*@BODY processNewSolution@*/

void harness(void)
{
    double c; processNewSolution(c);
    if (terminated) REACH("fires"); else REACH("does not fire");
    if (terminated && S0 + 1 > solutionsWindow_) REACH("fires later than the n-th solution");
    if (!terminated && S0 + 1 >= solutionsWindow_) REACH("window full, not converged");
}
