/* C18: PlannerTerminationConditionImpl::eval / terminate (member variables become globals). */
#include <stdbool.h>
#include <stddef.h>
bool terminate_; double period_; bool evalValue_;
bool FN_VAL; int fn_calls;
bool FN(void)
__CPROVER_requires(fn_calls < 1000)
__CPROVER_assigns(fn_calls)
__CPROVER_ensures(__CPROVER_return_value == FN_VAL && fn_calls == __CPROVER_old(fn_calls) + 1)
;
#define REACH(tag) __CPROVER_assert(0, "REACH " tag)

bool impl_eval(void)
__CPROVER_requires(period_ == period_ && fn_calls == 0)
__CPROVER_assigns(fn_calls)   /* frame: eval never clears terminate_ (sticky) and never touches the cached value */
/* C18.sticky once terminate() has been requested it reports true */
__CPROVER_ensures(terminate_ ==> __CPROVER_return_value)
/* C18.pred direct form: true exactly when the predicate is, predicate evaluated exactly once */
__CPROVER_ensures((!terminate_ && !(period_ > 0.0)) ==> (__CPROVER_return_value == FN_VAL && fn_calls == 1))
/* C18.periodic periodic form: the value cached by the evaluation thread */
__CPROVER_ensures((!terminate_ && period_ > 0.0) ==> (__CPROVER_return_value == evalValue_ && fn_calls == 0))
/*@BODY eval@*/

void impl_terminate(void)
__CPROVER_requires(1)
__CPROVER_assigns(terminate_)
__CPROVER_ensures(terminate_)
/*@BODY terminate@*/

void harness(void)
{
    bool r = impl_eval();
    if (r) REACH("true"); else REACH("false");
    if (terminate_ && period_ > 0.0 && !evalValue_) REACH("terminate requested on periodic form");
}
void harness_terminate(void)
{
    impl_terminate();
    REACH("terminate returns");
}
