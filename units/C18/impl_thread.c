/* C18 -- the sequential skeleton around the periodic evaluation thread of PlannerTerminationConditionImpl (the interleaving itself is concurrency: not covered).
 *  ctor:  the evaluation thread is started exactly for the periods for which eval() answers from the cached value (period_ > 0), the cache starts false;
 *  stop:  the stop flag is raised BEFORE the join (otherwise the join never returns), the thread object is joined and deleted exactly once;
 *  periodicEval (the thread body; terminate_ / signalThreadStop_ are volatile reads that may turn true at any read and then stay true):
 *         the loop ends only after one of the two flags was read true -- never because of the predicate's value --, every pass stores the predicate's current
 *         value in the cache, and between two evaluations it sleeps exactly `count` slices (count = 1 and slice = period for periods <= 1 ms).
 * Bounded: <= 12 flag reads, count <= 3. */
#include <stdbool.h>
#include <stddef.h>
#define REACH(msg) __CPROVER_assert(0, "REACH " msg)
bool nondet_bool(void); unsigned nondet_unsigned(void); double nondet_double(void);
double period_; bool terminate_, evalValue_, signalThreadStop_; int *thread_;
static int THE_THREAD; int threads_started, joins, deletes; bool join_saw_stop;
static int *NEW_THREAD(void) { threads_started++; return &THE_THREAD; }
static void JOIN(int *t) { __CPROVER_assert(t == &THE_THREAD && threads_started == 1 && joins == 0, "join: the started thread, once"); joins++; join_saw_stop = signalThreadStop_; }
static void DELETE_THREAD(int *t) { __CPROVER_assert(t == &THE_THREAD && joins == 1 && deletes == 0, "delete after join, once"); deletes++; }
/* thread body model */
#define MAXR 12
unsigned reads; bool term_state, stop_state, stop_seen; bool FN_CUR, last_fn; unsigned fn_calls, slept_since_eval, count_g; double slice_g; bool count_called, slice_called; bool sleep_ok;
static bool RD_TERM(void) { reads++; if (!term_state) term_state = (reads >= MAXR) ? true : nondet_bool(); if (term_state) stop_seen = true; return term_state; }
static bool RD_STOP(void) { reads++; if (!stop_state) stop_state = (reads >= MAXR) ? true : nondet_bool(); if (stop_state) stop_seen = true; return stop_state; }
static bool FN(void)
{
    if (fn_calls > 0) __CPROVER_assert(slept_since_eval == count_g, "C18.periodic between two evaluations the thread sleeps exactly `count` slices (about one period)");
    fn_calls++; slept_since_eval = 0; FN_CUR = nondet_bool(); last_fn = FN_CUR; return FN_CUR;
}
unsigned CNT_PRESET;
static unsigned COUNT_FOR(double p) { count_called = true; return CNT_PRESET; }
static double SLICE(double p, unsigned c) { slice_called = true; double s = nondet_double(); __CPROVER_assume(s > 0.0 && s <= p); slice_g = s; return s; }
static void SLEEP(double s) { slept_since_eval++; if (!(s > 0.0)) sleep_ok = false; if (slice_called ? s != slice_g : s != period_) sleep_ok = false; }

void impl_periodicEval(void)
/*@BODY periodicEval@*/
void impl_startEvalThread(void)
/*@BODY startEvalThread@*/
void impl_stopEvalThread(void)
/*@BODY stopEvalThread@*/
void impl_ctor(void)
/*@BODY ctor@*/

void h_ctor(void)
{
    __CPROVER_assume(period_ == period_); thread_ = NULL; threads_started = 0; evalValue_ = nondet_bool(); signalThreadStop_ = nondet_bool();
    impl_ctor();
    __CPROVER_assert((period_ > 0.0) == (thread_ != NULL) && threads_started == (period_ > 0.0 ? 1 : 0), "C18.periodic the evaluation thread runs exactly when eval() answers from the cache (period_ > 0)");
    if (period_ > 0.0) { __CPROVER_assert(!evalValue_ && !signalThreadStop_, "C18.periodic the cache starts false and the thread is not told to stop"); REACH("periodic form"); } else REACH("direct form");
}
void h_stop(void)
{
    bool running = nondet_bool(); threads_started = running ? 1 : 0; thread_ = running ? &THE_THREAD : NULL; joins = deletes = 0; signalThreadStop_ = false;
    impl_stopEvalThread();
    __CPROVER_assert(signalThreadStop_ && thread_ == NULL, "stop: flag raised, no thread left");
    if (running) { __CPROVER_assert(joins == 1 && deletes == 1 && join_saw_stop, "stop: the flag is raised before the join; joined and deleted exactly once"); REACH("joined"); } else { __CPROVER_assert(joins == 0 && deletes == 0, "nothing to join"); REACH("no thread"); }
}
void h_periodicEval(void)
{
    __CPROVER_assume(period_ > 0.0); reads = 0; term_state = stop_state = stop_seen = false; fn_calls = 0; slept_since_eval = 0; count_called = slice_called = false; sleep_ok = true; count_g = 1; evalValue_ = false;
    /* count_g mirrors the value COUNT_FOR hands out: fixed up front so FN can check it */
    unsigned c = nondet_unsigned(); __CPROVER_assume(c >= 1 && c <= 3);
    if (period_ > 0.001) count_g = c;
    CNT_PRESET = c;
    impl_periodicEval();
    __CPROVER_assert(stop_seen, "C18.pred the evaluation loop ends only once terminate_ or the stop flag was read true -- never because of the predicate's value");
    __CPROVER_assert(fn_calls == 0 || !evalValue_ == !last_fn, "C18.periodic the cache holds the value of the last evaluation");
    __CPROVER_assert(sleep_ok && count_called == (period_ > 0.001) && slice_called == count_called, "C18.periodic slices: the period itself up to 1 ms, period / count above");
    if (fn_calls >= 3) REACH("three evaluations"); if (fn_calls == 0) REACH("stopped before the first evaluation"); if (evalValue_ && fn_calls >= 2) REACH("cache true, still evaluating");
}
