/* C18: IterationTerminationCondition::eval / reset.  History invariant: timesCalled_ == number of evaluations since reset. */
#include <stdbool.h>
unsigned int maxCalls_, timesCalled_;
unsigned int EVALS;   /* ghost: evaluations made so far (since construction / reset) */
#define REACH(tag) __CPROVER_assert(0, "REACH " tag)
bool iter_eval(void)
__CPROVER_requires(timesCalled_ == EVALS && EVALS < 4294967295u)
__CPROVER_assigns(timesCalled_)
__CPROVER_ensures(timesCalled_ == EVALS + 1)
/* C18.iter false for evaluations 1..n, true from the (n+1)-th on */
__CPROVER_ensures(__CPROVER_return_value == (EVALS + 1 > maxCalls_))
/*@BODY eval@*/
void iter_reset(void)
__CPROVER_requires(1)
__CPROVER_assigns(timesCalled_)
__CPROVER_ensures(timesCalled_ == 0)
/*@BODY reset@*/
void harness(void)
{
    bool r = iter_eval();
    if (r) REACH("true"); else REACH("false");
    if (maxCalls_ == 0) REACH("n == 0");
}
void harness_reset(void) { iter_reset(); REACH("reset returns"); }
