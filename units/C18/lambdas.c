/* C18: the factory functions of PlannerTerminationCondition.cpp.  Each factory's text is extracted whole;
 * "return PlannerTerminationCondition([captures] { BODY });" becomes
 *   { <init-captures as locals> for (k_ = 0; k_ < 2; ++k_) { BODY with 'return e;' -> 'RES[k_] = e; continue;' } }
 * i.e. construction once, then the predicate evaluated twice in sequence (by-value captures are the locals
 * initialised once; the clock and the problem definition may change between the two evaluations). */
#include <stdbool.h>
#include <stddef.h>
int k_; bool RES[2]; int n_lambdas;
typedef long TimeT;                  /* time::point / time::duration as integer ticks */
TimeT NOW[3]; int now_calls;         /* monotone clock: NOW[0] <= NOW[1] <= NOW[2] (assumed contract on time::now()) */
static TimeT time_now(void) { __CPROVER_assert(now_calls < 3, "clock read at most once per phase"); return NOW[now_calls++]; }
static TimeT time_seconds(double d);
bool C1V[2], C2V[2]; int c1_calls[2], c2_calls[2];
static bool c1(void) { c1_calls[k_]++; return C1V[k_]; }
static bool c2(void) { c2_calls[k_]++; return C2V[k_]; }
bool HAS[2]; int has_calls[2];
static bool hasExactSolution(void) { has_calls[k_]++; return HAS[k_]; }
double SEC_ARG; TimeT SEC_VAL;
static TimeT time_seconds(double d) { SEC_ARG = d; return SEC_VAL; }
double PERIOD_USED;                  /* the period handed to the two-argument constructor */
#define REACH(tag) __CPROVER_assert(0, "REACH " tag)

void f_never(void)
/*@BODY never@*/
void f_always(void)
/*@BODY always@*/
void f_or(void)
/*@BODY or_@*/
void f_and(void)
/*@BODY and_@*/
void f_timed(TimeT duration)
/*@BODY timed@*/
void f_timed_interval(double duration, double interval)
/*@BODY timed_interval@*/
void f_exact(void)
/*@BODY exact@*/

static void init(void) { k_ = 0; now_calls = 0; n_lambdas = 0; for (int i = 0; i < 2; i++) { c1_calls[i] = c2_calls[i] = has_calls[i] = 0; } __CPROVER_assume(NOW[0] <= NOW[1] && NOW[1] <= NOW[2]); }
void h_never(void) { init(); f_never(); __CPROVER_assert(!RES[0] && !RES[1], "C18.const the never-terminating condition is constantly false"); REACH("never"); }
void h_always(void) { init(); f_always(); __CPROVER_assert(RES[0] && RES[1], "C18.const the always-terminating condition is constantly true"); REACH("always"); }
void h_or(void)
{
    init(); f_or();
    for (int i = 0; i < 2; i++) {
        __CPROVER_assert(RES[i] == (C1V[i] || C2V[i]), "C18.or true exactly when either operand is");
        __CPROVER_assert(c1_calls[i] <= 1 && c2_calls[i] <= 1 && c1_calls[i] + c2_calls[i] >= 1, "each operand evaluated at most once per evaluation");
    }
    if (RES[0] && !RES[1]) REACH("or flips"); 
}
void h_and(void)
{
    init(); f_and();
    for (int i = 0; i < 2; i++) {
        __CPROVER_assert(RES[i] == (C1V[i] && C2V[i]), "C18.and true exactly when both operands are");
        __CPROVER_assert(c1_calls[i] <= 1 && c2_calls[i] <= 1 && c1_calls[i] + c2_calls[i] >= 1, "each operand evaluated at most once per evaluation");
    }
    if (!RES[0] && RES[1]) REACH("and flips");
}
void h_timed(void)
{
    init(); TimeT d; __CPROVER_assume(d >= 0 && d < (1L << 60) && NOW[0] >= 0 && NOW[2] < (1L << 60));
    f_timed(d);
    /* construction read the clock once (NOW[0]); evaluations read NOW[1], NOW[2] */
    __CPROVER_assert(now_calls == 3, "end time computed once at construction, clock read once per evaluation");
    __CPROVER_assert(RES[0] == (NOW[1] - NOW[0] > d) && RES[1] == (NOW[2] - NOW[0] > d), "C18.timed false until the duration has elapsed, true afterwards");
    __CPROVER_assert(!RES[0] || RES[1], "C18.timed never reverts");
    if (!RES[0] && RES[1]) REACH("fires between evaluations");
}
void h_timed_interval(void)
{
    init(); double d, iv; __CPROVER_assume(d == d && iv == iv && NOW[0] >= 0 && NOW[2] < (1L << 60) && SEC_VAL >= 0 && SEC_VAL < (1L << 60));
    f_timed_interval(d, iv);
    __CPROVER_assert(now_calls == 3 && SEC_ARG == d, "end time = now + seconds(duration), computed once");
    __CPROVER_assert(RES[0] == (NOW[1] - NOW[0] > SEC_VAL) && RES[1] == (NOW[2] - NOW[0] > SEC_VAL), "C18.timed false until the duration has elapsed, true afterwards");
    __CPROVER_assert(!RES[0] || RES[1], "C18.timed never reverts");
    __CPROVER_assert(PERIOD_USED == (iv > d ? d : iv), "C18.periodic checking interval never exceeds the duration");
    if (iv > d) REACH("interval clipped");
}
void h_exact(void)
{
    init(); f_exact();
    __CPROVER_assert(RES[0] == HAS[0] && RES[1] == HAS[1], "C18.exact mirrors whether the problem definition holds an exact solution, at every evaluation");
    if (HAS[0] && !HAS[1]) REACH("solution cleared between evaluations");
}
