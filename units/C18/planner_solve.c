/* C18 -- Planner::solve(double solveTime) and Planner::solve(fn, checkInterval): the convenience overloads build the termination condition the caller
 * asked for: a timed condition for exactly `solveTime` seconds (evaluated inline below one second, otherwise by the periodic thread with a period of
 * solveTime / 100 capped at 0.1 s -- the condition can lag by at most that period), resp. the caller's predicate with the caller's check interval. */
#include <stdbool.h>
#include <stddef.h>
#define REACH(msg) __CPROVER_assert(0, "REACH " msg)
int tc_kind; double tc_duration, tc_interval; bool tc_has_interval; int tc_fn; unsigned solves; int solved_with;
#define MIND(a, b) ((a) < (b) ? (a) : (b))
static int TIMED1(double d) { tc_kind = 1; tc_duration = d; tc_has_interval = false; return 1; }
static int TIMED2(double d, double iv) { tc_kind = 1; tc_duration = d; tc_interval = iv; tc_has_interval = true; return 1; }
static int PTC_FN(int fn, double iv) { tc_kind = 2; tc_fn = fn; tc_interval = iv; tc_has_interval = true; return 2; }
static int SOLVE(int ptc) { solves++; solved_with = ptc; return 42; }
int pl_solve_time(double solveTime)
/*@BODY solve_time@*/
int pl_solve_fn(int ptc, double checkInterval)
/*@BODY solve_fn@*/
void h_planner_solve(void)
{
    double t; __CPROVER_assume(t == t && t >= 0.0 && t <= 1e6); solves = 0;
    int r = pl_solve_time(t);
    __CPROVER_assert(solves == 1 && r == 42 && tc_kind == 1 && tc_duration == t, "C18.timed solve(t) runs with a timed condition of exactly t seconds and returns the planner's status");
    if (t < 1.0) __CPROVER_assert(!tc_has_interval, "short limits are evaluated at every call"); else { __CPROVER_assert(tc_has_interval && tc_interval > 0.0 && tc_interval <= 0.1 && tc_interval <= t, "C18.lag longer limits are polled with a period of at most 0.1 s (and at most the limit itself)"); REACH("periodic"); }
    double iv; int fn; __CPROVER_assume(iv == iv); solves = 0;
    r = pl_solve_fn(fn, iv);
    __CPROVER_assert(solves == 1 && r == 42 && tc_kind == 2 && tc_fn == fn && tc_interval == iv, "solve(fn, interval) runs with the caller's predicate and the caller's check interval");
}
