"""C20 -- a fixed seed reproduces single-threaded planning bit for bit (reduced scope: the seeding functions)."""
PROPERTY = "C20"
LEVEL = "proof"
RN = "src/ompl/util/src/RandomNumbers.cpp"
PFLAGS = ["--bounds-check", "--pointer-check", "--signed-overflow-check", "--conversion-check", "--div-by-zero-check"]
R = [(r"std::lock_guard<std::mutex> slock\(rngMutex_\);", "", 0), (r"sGen_\.seed\(seed\);", "sGen_seed(seed);", 0), (r"sDist_\(sGen_\)", "sDist_draw()", 0),
     (r"generator_\.seed\(localSeed_\);", "generator_seed(localSeed_);", 0), (r"uniDist_\.reset\(\);", "uni_reset = 1;", 0), (r"normalDist_\.reset\(\);", "normal_reset = 1;", 0),
     (r"sphericalDataPtr_->reset\(\);", "sph_reset = 1;", 0)]
SRC = [dict(name="firstSeed", file=RN, sig=r"std::uint_fast32_t firstSeed\(\)", rules=R, loops={}),
       dict(name="setSeed", file=RN, sig=r"void setSeed\(std::uint_fast32_t seed\)", rules=R, loops={}),
       dict(name="nextSeed", file=RN, sig=r"std::uint_fast32_t nextSeed\(\)", rules=R, loops={}),
       dict(name="setLocalSeed", file=RN, sig=r"void ompl::RNG::setLocalSeed\(std::uint_fast32_t localSeed\)", rules=R, loops={})]


def U(name, entry, fn, can=()):
    return dict(name=name, template="C20/seed.c", mode="plain", entry=entry, sources=SRC, flags=PFLAGS, level="proof", functions=[fn], canaries=list(can), backend="minisat")


UNITS = [
    U("c20_setSeed", "h_setSeed", "RNGSeedGenerator::setSeed, firstSeed", [dict(name="first_seed_not_recorded", where="body:setSeed", rx=r"firstSeed_ = seed;", repl="")]),
    U("c20_nextSeed", "h_nextSeed", "RNGSeedGenerator::nextSeed", [dict(name="generation_not_recorded", where="body:nextSeed", rx=r"someSeedsGenerated_ = true;", repl="")]),
    U("c20_setLocalSeed", "h_setLocalSeed", "ompl::RNG::setLocalSeed", [dict(name="normal_cache_not_reset", where="body:setLocalSeed", rx=r"normal_reset = 1;", repl=""),
                                                                       dict(name="reset_before_reseed", where="body:setLocalSeed", rx=r"(generator_seed\(localSeed_\);)(.*)(sph_reset = 1;)", repl=r"\2\3 \1")]),
]
# ---- samplers (StateSampler.cpp and the leaf spaces): a sample is a function of the generator's draws only -- every output component is
# (re)written from the RNG contract, nothing of the destination's previous content survives (units of C08, run from an ARBITRARY destination state:
# a component the sampler skips keeps an arbitrary, possibly out-of-bounds value and fails the in-bounds postcondition) ----
import copy, importlib.util as _ilu, os as _os
def _load(n):
    sp = _ilu.spec_from_file_location("u_" + n, _os.path.join(_os.path.dirname(__file__), n + ".py")); m = _ilu.module_from_spec(sp); sp.loader.exec_module(m); return m
_C08 = _load("C08")
for _u in _C08.UNITS:
    if _u["name"] in ("c08_compound_sampleUniform", "c08_compound_sampleUniformNear", "c08_compound_sampleGaussian", "c08_realvector_sampleUniform", "c08_realvector_sampleUniformNear",
                      "c08_realvector_sampleGaussian", "c08_so2_samplers", "c08_time_samplers", "c08_discrete_samplers"):
        _v = copy.deepcopy(_u); _v["name"] = _v["name"].replace("c08_", "c20_sampler_"); UNITS.append(_v)
        if _v["name"].endswith("realvector_sampleUniformNear"):
            _v["in_tiers"] = ("thorough",)      # 3 min of solver time; the quick tier keeps the other eight sampler units
# ---- the evaluation-count termination condition (unit of C18): its verdict depends on the number of evaluations only ----
_C18 = _load("C18")
for _u in _C18.UNITS:
    if _u["name"] in ("c18_iteration_eval",):
        _v = copy.deepcopy(_u); _v["name"] = "c20_iteration_termination"; UNITS.append(_v)

ASSUMPTIONS = ["std::ranlux24_base, std::mt19937 and the std/boost distributions are deterministic functions of (seed, number of draws, cache state): assumed contracts on dependencies",
               "mutex deleted (sequential semantics); the RNG constructors' member-initialiser lists (seed obtained from nextSeed() handed to the engine) are not extracted"]
TRUSTED = ["extraction rewrite table of units/C20.py", "stubs in units/C20/seed.c", "CBMC 6.11"]
NOT_COVERED = ["bit-identical whole-planner runs across processes (unordered containers keyed by pointers, wall-clock use inside planners): a 2-run hyperproperty of whole programs",
               "RNG::RNG() / RNG::RNG(seed) initialiser lists, SphericalData::reset loop", "planner code (RRT, PRM, BIT*): only the samplers they draw from and the evaluation-count termination condition are under contract"]

MISC_CPPS = ['src/ompl/util/src/RandomNumbers.cpp']
NATIVE = [
    dict(name="c20_native_search", driver="native/misc_native.cpp", link_ompl=True, unit_cpps=MISC_CPPS, args=lambda tier, seed: ["c20", seed, 500 if tier == "quick" else 50000], timeout=900),
]


def replay(ur, scratch, seed):
    """Search the real classes for a failing input (native/misc_native.cpp, mode c20)."""
    from vf import native as N, cbmc as C
    exe = N.build_driver("native/misc_native.cpp", scratch, link_ompl=True, unit_cpps=MISC_CPPS)
    r = C.run_cmd([exe, "c20", str(seed), "12500"], 600, env=N.run_env())
    return dict(found=(r["rc"] == 1), driver="native/misc_native.cpp", args=["c20", seed, 12500], link_ompl=True, unit_cpps=MISC_CPPS, output=r["out"][-2500:])
