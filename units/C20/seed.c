/* C20: RNGSeedGenerator::setSeed / nextSeed / firstSeed and RNG::setLocalSeed.  The std engines/distributions are stubs carrying
 * ghost marks: which value an engine was last seeded with, how many numbers were drawn since, which caches were reset. */
#include <stdbool.h>
#include <stddef.h>
#define REACH(tag) __CPROVER_assert(0, "REACH " tag)
typedef unsigned long Seed;
bool someSeedsGenerated_; Seed firstSeed_;
Seed SGEN_SEED; int SGEN_DRAWS; bool sgen_reseeded;
static void sGen_seed(Seed s) { SGEN_SEED = s; SGEN_DRAWS = 0; sgen_reseeded = 1; }
Seed nondet_seed(void);
static Seed sDist_draw(void) { SGEN_DRAWS++; Seed r = nondet_seed(); __CPROVER_assume(r >= 1 && r <= 1000000000); return r; }   /* a function of (SGEN_SEED, SGEN_DRAWS) only */
Seed sg_firstSeed(void)
/*@BODY firstSeed@*/
void sg_setSeed(Seed seed)
/*@BODY setSeed@*/
Seed sg_nextSeed(void)
/*@BODY nextSeed@*/
Seed localSeed_; Seed GEN_SEED; bool uni_reset, normal_reset, sph_reset; int resets_after_seed;
static void generator_seed(Seed s) { GEN_SEED = s; uni_reset = normal_reset = sph_reset = 0; }
void rng_setLocalSeed(Seed localSeed)
/*@BODY setLocalSeed@*/
bool nondet_bool(void);
void h_setSeed(void)
{
    Seed s = nondet_seed(); bool gen0 = someSeedsGenerated_; Seed first0 = firstSeed_; Seed sg0 = SGEN_SEED; sgen_reseeded = 0;
    sg_setSeed(s);
    if (s > 0 && !gen0) __CPROVER_assert(firstSeed_ == s && SGEN_SEED == s && SGEN_DRAWS == 0 && sg_firstSeed() == s, "C20.seed a positive seed set before any generator was created becomes the first seed and reseeds the seed generator");
    if (s == 0 && !gen0) __CPROVER_assert(SGEN_SEED == 1 && SGEN_DRAWS == 0, "seed 0 is replaced by 1");
    if (s == 0 && gen0) __CPROVER_assert(!sgen_reseeded && SGEN_SEED == sg0, "seed 0 after generation started is ignored");
    if (gen0) __CPROVER_assert(firstSeed_ == first0, "the recorded first seed does not change once seeds were handed out");
    __CPROVER_assert(someSeedsGenerated_ == gen0, "setSeed does not hand out seeds");
    if (s > 0 && !gen0) REACH("fresh"); if (gen0) REACH("late");
}
void h_nextSeed(void)
{
    int d0 = SGEN_DRAWS; Seed sg0 = SGEN_SEED; __CPROVER_assume(d0 >= 0 && d0 < 1000000);
    Seed r = sg_nextSeed();
    __CPROVER_assert(someSeedsGenerated_ && SGEN_DRAWS == d0 + 1 && SGEN_SEED == sg0 && r >= 1, "C20.seed the i-th generator's seed is the i-th draw of the seed generator (depends only on the global seed and i), and handing it out is recorded");
    REACH("done");
}
void h_setLocalSeed(void)
{
    Seed s = nondet_seed(); uni_reset = normal_reset = sph_reset = 0;
    rng_setLocalSeed(s);
    __CPROVER_assert(localSeed_ == s && GEN_SEED == s, "C20.local the generator is reseeded with exactly the given local seed");
    __CPROVER_assert(uni_reset && normal_reset && sph_reset, "C20.local every distribution cache (uniform, normal, spherical) is reset AFTER reseeding, so the stream restarts identically");
    REACH("done");
}
