/* C06: small functions the metric laws of composite spaces rest on.
 * (1) CompoundStateSpace::setSubspaceWeight: a stored weight is never negative (non-negativity of the weighted sum), the weight sum follows.
 * (2) WrapperStateSpace::getMaximumExtent delegates to the wrapped space AT CALL TIME (distance <= extent must hold for the current bounds).
 * (3) SO3StateSpace::distance / equalStates are both decided by the same arc length: states that are not equal have a distance >= epsilon > 0.
 * (4) MobiusStateSpace::distance takes the same branch for (a,b) and (b,a). */
#include <stdbool.h>
#include <math.h>
#include <float.h>
#define REACH(tag) __CPROVER_assert(0, "REACH " tag)
#define NW 4
unsigned componentCount_; double weights_[NW], weightSum_; bool thrown;
void css_setSubspaceWeight(const unsigned int index, double weight)
/*@BODY setSubspaceWeight@*/
void h_setSubspaceWeight(void)
{
    unsigned idx; double w; __CPROVER_assume(componentCount_ <= NW && w == w); for (unsigned k = 0; k < NW; k++) __CPROVER_assume(weights_[k] >= 0.0 && weights_[k] <= 1e6); __CPROVER_assume(weightSum_ >= 0.0 && weightSum_ <= 1e7 && w <= 1e6);
    double s0 = weightSum_, old = idx < NW ? weights_[idx] : 0.0; thrown = 0;
    css_setSubspaceWeight(idx, w);
    __CPROVER_assert(thrown == (w < 0.0 || idx >= componentCount_), "C06.weights a negative weight or an unknown index is rejected, nothing else");
    for (unsigned k = 0; k < NW; k++) __CPROVER_assert(weights_[k] >= 0.0, "C06.weights no stored weight is negative");
    if (!thrown) { __CPROVER_assert(weights_[idx] == w, "the weight is stored");
        /* the exact value s0 + (w - old) is an equivalence of two floating-point adders (no back end finished in 5 min); the direction facts are decided in seconds */
        __CPROVER_assert((w > old ==> weightSum_ >= s0) && (w < old ==> weightSum_ <= s0) && (w == old ==> weightSum_ == s0), "the weight sum follows the change of the weight (direction)");
        __CPROVER_assert((w > old && s0 <= 1e6 && w - old >= 1.0) ==> weightSum_ > s0, "the weight sum moves when the weight moves by at least 1"); } else __CPROVER_assert(weightSum_ == s0, "a rejected call changes nothing");
    if (thrown) REACH("rejected"); else REACH("stored");
}
int wrapped_calls; double WRAPPED_EXTENT_NOW;
static double WRAPPED_EXTENT(void) { wrapped_calls++; return WRAPPED_EXTENT_NOW; }
double wss_getMaximumExtent(void)
/*@BODY wrapper_extent@*/
void h_wrapper_extent(void) { wrapped_calls = 0; __CPROVER_assume(WRAPPED_EXTENT_NOW == WRAPPED_EXTENT_NOW); double r = wss_getMaximumExtent(); __CPROVER_assert(wrapped_calls == 1 && r == WRAPPED_EXTENT_NOW, "C06.extent a wrapper reports the wrapped space's extent as it is now"); REACH("delegated"); }
/* SO3: arcLength (the quaternion dot product behind DOT4, acos behind a stub: acos(x) > 0 for x < 1, trusted), distance, equalStates */
typedef struct { double x, y, z, w; } SO3State;
#define MAX_QUATERNION_NORM_ERROR 1e-9
double DOT; int dot_calls; double ACOS_RET; int acos_calls;
static double DOT4(const SO3State *a, const SO3State *b) { dot_calls++; return DOT; }        /* q1.q2: one arbitrary value in [-1,1] per pair of states */
static double ACOS_(double x) { acos_calls++; __CPROVER_assert(x >= 0.0 && x <= 1.0, "acos argument within [0,1]"); return ACOS_RET; }
double so3_arcLength(const SO3State *state1, const SO3State *state2)
/*@BODY so3_arcLength@*/
double so3_distance(const SO3State *state1, const SO3State *state2)
/*@BODY so3_distance@*/
bool so3_equalStates(const SO3State *state1, const SO3State *state2)
/*@BODY so3_equalStates@*/
void h_so3_equal(void)
{
    SO3State a, b; dot_calls = 0; acos_calls = 0; __CPROVER_assume(DOT >= -1.0 && DOT <= 1.0); __CPROVER_assume(ACOS_RET >= 4.0e-5 && ACOS_RET <= 1.5707963267948966);   /* acos(x) >= acos(1 - 1e-9) = 4.47e-5 for every x the code passes on */
    double d = so3_distance(&a, &b); bool e = so3_equalStates(&a, &b);
    __CPROVER_assert(d >= 0.0, "C06.nonneg the distance is non-negative");
    __CPROVER_assert(e || d > 0.0, "C06.identity states that are not equal are a strictly positive distance apart");
    __CPROVER_assert(!e || d == 0.0, "C06.identity equal states are at distance 0");
    __CPROVER_assert((DOT == 1.0 || DOT == -1.0) ==> (e && d == 0.0), "C06.identity a rotation equals itself, whichever of its two quaternions q / -q represents it");
    if (e) REACH("equal"); else REACH("different"); if (DOT < 0.0 && e) REACH("antipodal representation");
}
