/* CompoundStateSpace / CompoundStateSampler delegation loops.  Components are addressed by index: the call
 * components_[i]->f(cstate->components[i], ...) becomes comp_f(i, ...).  Universal statements are Skolemised with the
 * ghost component index G (arbitrary, never assigned): unbounded in the number of components. */
#include "fp_stubs.h"
unsigned componentCount_, samplerCount_;
unsigned G;                     /* ghost component */
bool satG, SATV; int callsG, uniformG, nearG, gaussG; bool any_unsat; bool checkedG; double argG; int interpG; double tG;
double W_G, D_G;                /* weight and component distance at G (arbitrary, fixed) */
void comp_enforceBounds(unsigned i)
__CPROVER_requires(i < componentCount_ && callsG < 1000)
__CPROVER_assigns(satG, callsG)
__CPROVER_ensures(i == G ? (satG && callsG == __CPROVER_old(callsG) + 1) : (satG == __CPROVER_old(satG) && callsG == __CPROVER_old(callsG)));
bool comp_satisfiesBounds(unsigned i)
__CPROVER_requires(i < componentCount_)
__CPROVER_assigns(checkedG, any_unsat)
__CPROVER_ensures(i == G ? (checkedG && __CPROVER_return_value == SATV) : checkedG == __CPROVER_old(checkedG))
__CPROVER_ensures(any_unsat == (__CPROVER_old(any_unsat) || !__CPROVER_return_value));
/* component samplers: every one of them leaves its component in bounds (that is the component's own C08 contract) */
void samp_sampleUniform(unsigned i)
__CPROVER_requires(i < samplerCount_ && callsG < 1000)
__CPROVER_assigns(satG, callsG, uniformG)
__CPROVER_ensures(i == G ? (satG && callsG == __CPROVER_old(callsG) + 1 && uniformG == __CPROVER_old(uniformG) + 1) : (satG == __CPROVER_old(satG) && callsG == __CPROVER_old(callsG) && uniformG == __CPROVER_old(uniformG)));
void samp_sampleUniformNear(unsigned i, double d)
__CPROVER_requires(i < samplerCount_ && callsG < 1000)
__CPROVER_assigns(satG, callsG, nearG, argG)
__CPROVER_ensures(i == G ? (satG && callsG == __CPROVER_old(callsG) + 1 && nearG == __CPROVER_old(nearG) + 1 && (argG == d || d != d)) : (satG == __CPROVER_old(satG) && callsG == __CPROVER_old(callsG) && nearG == __CPROVER_old(nearG)));
void samp_sampleGaussian(unsigned i, double d)
__CPROVER_requires(i < samplerCount_ && callsG < 1000)
__CPROVER_assigns(satG, callsG, gaussG, argG)
__CPROVER_ensures(i == G ? (satG && callsG == __CPROVER_old(callsG) + 1 && gaussG == __CPROVER_old(gaussG) + 1 && (argG == d || d != d)) : (satG == __CPROVER_old(satG) && callsG == __CPROVER_old(callsG) && gaussG == __CPROVER_old(gaussG)));
double weightImportance(unsigned i)
__CPROVER_requires(i < samplerCount_) __CPROVER_assigns() __CPROVER_ensures(i == G ==> __CPROVER_return_value == W_G);
double FMULW(double a, double b)   /* distance * weight: an arbitrary double (the scaled radius handed to the component sampler) */
__CPROVER_requires(1) __CPROVER_assigns() __CPROVER_ensures(1);
bool comp_equalStates(unsigned i)   /* a component's own equality test (arbitrary verdict); used by no function on the unchanged tree's delegation loops except equalStates itself */
__CPROVER_requires(i < componentCount_) __CPROVER_assigns() __CPROVER_ensures(1);
void comp_interpolate(unsigned i, double t)
__CPROVER_requires(i < componentCount_ && interpG < 1000)
__CPROVER_assigns(interpG, tG)
__CPROVER_ensures(i == G ? (interpG == __CPROVER_old(interpG) + 1 && (tG == t || t != t)) : (interpG == __CPROVER_old(interpG) && (tG == __CPROVER_old(tG) || (tG != tG && __CPROVER_old(tG) != __CPROVER_old(tG)))));
/* weighted distance term w_i * d_i: non-negative for non-negative weight and distance; records the fold */
double ACC; bool chain_ok; int termsG; unsigned next_term;
double comp_weighted_distance(unsigned i)
__CPROVER_requires(i < componentCount_ && termsG < 1000)
__CPROVER_assigns(termsG, next_term, chain_ok)
__CPROVER_ensures(__CPROVER_return_value >= 0.0)
__CPROVER_ensures(chain_ok == (__CPROVER_old(chain_ok) && i == __CPROVER_old(next_term)) && next_term == __CPROVER_old(next_term) + 1)
__CPROVER_ensures(termsG == __CPROVER_old(termsG) + (i == G ? 1 : 0));

void compound_enforceBounds(void)
__CPROVER_requires(componentCount_ <= 1000000 && G < componentCount_ && callsG == 0)
__CPROVER_assigns(satG, callsG)
__CPROVER_ensures(satG && callsG == 1)   /* C08.b every component's bounds are enforced, exactly once */
/*@BODY c_enforceBounds@*/
bool compound_satisfiesBounds(void)
__CPROVER_requires(componentCount_ <= 1000000 && G < componentCount_ && !checkedG && !any_unsat)
__CPROVER_assigns(checkedG, any_unsat)
__CPROVER_ensures(__CPROVER_return_value ==> (checkedG && SATV))   /* in bounds => every component is */
__CPROVER_ensures(!__CPROVER_return_value ==> any_unsat)           /* out of bounds => some component is */
/*@BODY c_satisfiesBounds@*/
void compound_sampleUniform(void)
__CPROVER_requires(samplerCount_ <= 1000000 && G < samplerCount_ && callsG == 0 && uniformG == 0)
__CPROVER_assigns(satG, callsG, uniformG)
__CPROVER_ensures(satG && callsG == 1 && uniformG == 1)   /* C08.sample every component is sampled (once) by its own sampler */
/*@BODY cs_sampleUniform@*/
void compound_sampleUniformNear(const double distance)
__CPROVER_requires(samplerCount_ <= 1000000 && G < samplerCount_ && callsG == 0 && uniformG == 0 && nearG == 0 && W_G == W_G)
__CPROVER_assigns(satG, callsG, uniformG, nearG, argG)
__CPROVER_ensures(satG && callsG == 1)   /* C08.sample every component is sampled exactly once, near or uniformly (zero-weight components) */
__CPROVER_ensures(W_G > DBL_EPSILON ? nearG == 1 : uniformG == 1)
/*@BODY cs_sampleUniformNear@*/
void compound_sampleGaussian(const double stdDev)
__CPROVER_requires(samplerCount_ <= 1000000 && G < samplerCount_ && callsG == 0 && gaussG == 0)
__CPROVER_assigns(satG, callsG, gaussG, argG)
__CPROVER_ensures(satG && callsG == 1 && gaussG == 1)
/*@BODY cs_sampleGaussian@*/
void compound_interpolate(const double t)
__CPROVER_requires(componentCount_ <= 1000000 && G < componentCount_ && interpG == 0 && t == t)
__CPROVER_assigns(interpG, tG)
__CPROVER_ensures(interpG == 1 && tG == t)   /* C07.compound every component is interpolated exactly once with the same t */
/*@BODY c_interpolate@*/
double compound_distance(void)
__CPROVER_requires(componentCount_ <= 1000000 && G < componentCount_ && termsG == 0 && next_term == 0 && chain_ok)
__CPROVER_assigns(termsG, next_term, chain_ok)
__CPROVER_ensures(__CPROVER_return_value >= 0.0)                       /* C06.nonneg */
__CPROVER_ensures(termsG == 1 && chain_ok && next_term == componentCount_)   /* C06.compound the weighted sum: every component's term w_i*d_i added exactly once, in order */
/*@BODY c_distance@*/

void h_enforce(void) { compound_enforceBounds(); REACH("done"); }
void h_satisfies(void) { bool r = compound_satisfiesBounds(); if (r) REACH("in"); else REACH("out"); }
void h_sampleUniform(void) { compound_sampleUniform(); REACH("done"); }
void h_sampleUniformNear(void) { double d; compound_sampleUniformNear(d); if (W_G > DBL_EPSILON) REACH("near"); else REACH("zero weight component"); }
void h_sampleGaussian(void) { double d; compound_sampleGaussian(d); REACH("done"); }
void h_interpolate(void) { double t; compound_interpolate(t); REACH("done"); }
void h_distance(void) { double d = compound_distance(); if (componentCount_ > 3) REACH("several"); }
