/* Trusted external floating-point / RNG operations with assumed contracts (IEEE-754 / C99 facts only).
 * + - and comparisons stay bit-precise; *, fmod, floor, sqrt and the random generator are abstracted. */
#include <stdbool.h>
#include <stddef.h>
#include <float.h>
#include <math.h>
#include <stdlib.h>
#define PI 3.14159265358979323846
double nondet_double(void); int nondet_int(void); bool nondet_bool(void); unsigned nondet_unsigned(void);
#define IS_FINITE(x) ((x) - (x) == 0.0)
#define REACH(tag) __CPROVER_assert(0, "REACH " tag)
#define MAXD(a, b) ((a) < (b) ? (b) : (a))     /* std::max(a,b) */
#define MIND(a, b) ((b) < (a) ? (b) : (a))     /* std::min(a,b) */
/* x * t for 0 <= t <= 1 (correctly rounded product is monotone): between 0 and x; exactly x for t == 1; a zero for t == 0 or x == 0 */
static double FMUL01(double x, double t)
{
    double r = nondet_double();
    __CPROVER_assert(t >= 0.0 && t <= 1.0, "interpolation parameter within [0,1]");
    __CPROVER_assume(x >= 0.0 ? (r >= 0.0 && r <= x) : (r <= 0.0 && r >= x));
    __CPROVER_assume(t != 1.0 || r == x); __CPROVER_assume(t != 0.0 || r == 0.0); __CPROVER_assume(x != 0.0 || r == 0.0);
    return r;
}
/* C99 fmod for finite x and finite non-zero y: |r| < |y|, r has the sign of x (or is zero), r == x when |x| < |y| */
static double FMOD(double x, double y)
{
    double r = nondet_double(); double ay = y < 0 ? -y : y, ax = x < 0 ? -x : x;
    __CPROVER_assume(!(IS_FINITE(x) && IS_FINITE(y) && y != 0.0) || ((r < ay && r > -ay) && (x >= 0.0 ? r >= 0.0 : r <= 0.0) && (!(ax < ay) || r == x)));
    __CPROVER_assume((IS_FINITE(x) && IS_FINITE(y) && y != 0.0) || r != r);
    return r;
}
/* floor: integral value, x-1 < r <= x for finite x; result representable facts used only through the conversions below */
static double FLOOR(double x) { double r = nondet_double(); __CPROVER_assume(!IS_FINITE(x) || (r <= x && x - r < 1.0 && r == (double)(long)r)); return r; }
static double SQRT(double x) { double r = nondet_double(); __CPROVER_assume(!(x >= 0.0) || (r >= 0.0 && (x != 0.0 || r == 0.0) && (x == 0.0 || r > 0.0))); __CPROVER_assume(x >= 0.0 || r != r); return r; }
/* RNG (ompl::RNG): uniformReal(a,b) = (b-a)*u + a with u in [0,1): a value in [a,b) for a < b, a for a == b; requires a <= b */
static double uniformReal(double a, double b) { double r = nondet_double(); __CPROVER_assert(a <= b, "C08.rng uniformReal called with lower <= upper"); __CPROVER_assume(a < b ? (r >= a && r < b) : r == a); return r; }
static int uniformInt(int a, int b) { int r = nondet_int(); __CPROVER_assert(a <= b, "C08.rng uniformInt called with lower <= upper"); __CPROVER_assume(r >= a && r <= b); return r; }
static double gaussian(double mean, double stddev) { double r = nondet_double(); __CPROVER_assume(IS_FINITE(r)); return r; }
