/* C06/C07: MobiusStateSpace::distance / interpolate -- the seam (gluing strip) branch.  distance and interpolate must take the SAME branch
 * for the same pair of states ("interpolation moves along the path whose length is the distance"), and interpolate(from, to, 0) gives back
 * `from`, also on the seam branch.  The SO(2) and compound operations are stubs (SO(2): t = 0 yields from's angle; proved in c07_so2_interpolate). */
#include <stdbool.h>
#include <math.h>
#define REACH(tag) __CPROVER_assert(0, "REACH " tag)
#define pi 3.14159265358979323846
double U1, V1, U2, V2, U_OUT, V_OUT; int compound_dist_calls, compound_interp_calls, so2_dist_calls, so2_interp_calls;
double nondet_double(void);
static double COMPOUND_DISTANCE(void) { compound_dist_calls++; double d = nondet_double(); __CPROVER_assume(d >= 0.0); return d; }
static void COMPOUND_INTERPOLATE(double t) { compound_interp_calls++; U_OUT = nondet_double(); V_OUT = nondet_double(); if (t == 0.0) { U_OUT = U1; V_OUT = V1; } }
static double SO2_WEIGHTED_DISTANCE(void) { so2_dist_calls++; double d = nondet_double(); __CPROVER_assume(d >= 0.0); return d; }
static void SO2_INTERPOLATE(double t) { so2_interp_calls++; U_OUT = nondet_double(); __CPROVER_assume(U_OUT >= -pi && U_OUT <= pi); if (t == 0.0) U_OUT = U1; }
static void SET_V(double r) { V_OUT = r; }
double mobius_distance(void)
/*@BODY m_distance@*/
void mobius_interpolate(double t)
/*@BODY m_interpolate@*/
void h_mobius(void)
{
    __CPROVER_assume(U1 >= -pi && U1 <= pi && U2 >= -pi && U2 <= pi && V1 >= -1e6 && V1 <= 1e6 && V2 >= -1e6 && V2 <= 1e6);
    compound_dist_calls = compound_interp_calls = so2_dist_calls = so2_interp_calls = 0;
    double d = mobius_distance(); double t = nondet_double(); __CPROVER_assume(t >= 0.0 && t <= 1.0);
    mobius_interpolate(t);
    __CPROVER_assert(compound_dist_calls == compound_interp_calls && so2_dist_calls == so2_interp_calls && compound_dist_calls + so2_dist_calls == 1, "C07.mobius distance and interpolate take the same branch (direct or across the seam) for the same pair of states");
    if (t == 0.0) __CPROVER_assert(U_OUT == U1 && V_OUT == V1, "C07.mobius interpolate(from, to, 0) is from, also across the seam");
    __CPROVER_assert(d >= 0.0, "C06 distance is non-negative");
    if (so2_dist_calls) REACH("across the seam"); else REACH("direct");
    /* symmetry of the branch choice: d(b,a) takes the branch d(a,b) took */
    int seam_ab = so2_dist_calls; double tu = U1, tv = V1; U1 = U2; V1 = V2; U2 = tu; V2 = tv; so2_dist_calls = compound_dist_calls = 0;
    mobius_distance();
    __CPROVER_assert(so2_dist_calls == seam_ab, "C06.symmetry distance(a,b) and distance(b,a) take the same branch (direct or across the seam)");
}
