/* RealVectorStateSpace / RealVectorStateSampler: per-coordinate loops with loop contracts; universal statements are
 * Skolemised with the ghost coordinate G.  State values live in static arrays of MAXDIM doubles (dimension <= MAXDIM). */
#include "fp_stubs.h"
#ifndef MAXDIM
#define MAXDIM 64
#endif
typedef struct { double *values; } RVState;
double VAL_A[MAXDIM], VAL_B[MAXDIM], VAL_C[MAXDIM], LOW[MAXDIM], HIGH[MAXDIM];
unsigned dimension_; unsigned G;
double V0, LO_G, HI_G;          /* ghosts: pre-state value, bounds at G */
typedef struct { double *low; double *high; } Bounds; Bounds bounds_ = { LOW, HIGH };
#define WF (bounds_.low == LOW && bounds_.high == HIGH && dimension_ >= 1 && dimension_ <= MAXDIM && G < dimension_ && LO_G == LOW[G] && HI_G == HIGH[G] && LO_G <= HI_G && IS_FINITE(LO_G) && IS_FINITE(HI_G))
/* uniformReal / gaussian / FMUL01 as contracts (DFCC replaces the calls) */
double c_uniformReal(double a, double b)
__CPROVER_requires(1)
__CPROVER_assigns()
/* with lower <= upper the value lies in [a,b) (a for a == b); called with lower > upper (C08.rng violated) the result is arbitrary,
 * so the in-bounds postcondition at the ghost coordinate fails */
__CPROVER_ensures(a < b ? (__CPROVER_return_value >= a && __CPROVER_return_value < b) : (a == b ==> __CPROVER_return_value == a));
double c_gaussian(double m, double s)
__CPROVER_requires(1) __CPROVER_assigns() __CPROVER_ensures(IS_FINITE(__CPROVER_return_value));
double c_FMUL01(double x, double t)
__CPROVER_requires(t >= 0.0 && t <= 1.0)
__CPROVER_assigns()
__CPROVER_ensures(x >= 0.0 ? (__CPROVER_return_value >= 0.0 && __CPROVER_return_value <= x) : (__CPROVER_return_value <= 0.0 && __CPROVER_return_value >= x))
__CPROVER_ensures((t != 1.0 || __CPROVER_return_value == x) && (t != 0.0 || __CPROVER_return_value == 0.0) && (x != 0.0 || __CPROVER_return_value == 0.0));
double c_FSQ(double d)          /* d*d: non-negative, zero iff d is zero (no underflow modelling: see assumptions) */
__CPROVER_requires(1) __CPROVER_assigns() __CPROVER_ensures(d == d ? (__CPROVER_return_value >= 0.0 && (d != 0.0 || __CPROVER_return_value == 0.0)) : __CPROVER_return_value != __CPROVER_return_value);
double c_SQRT(double x)
__CPROVER_requires(1) __CPROVER_assigns() __CPROVER_ensures(x >= 0.0 ? (__CPROVER_return_value >= 0.0 && (x != 0.0 || __CPROVER_return_value == 0.0)) : __CPROVER_return_value != __CPROVER_return_value);
bool sat_at_G; /* ghost */
#define SAT1(v) (!((v) - DBL_EPSILON > HI_G || (v) + DBL_EPSILON < LO_G))

void rv_enforceBounds(RVState *state)
__CPROVER_requires(WF && state->values == VAL_A && V0 == VAL_A[G] && V0 == V0)
__CPROVER_assigns(__CPROVER_object_whole(VAL_A))
/* C08.a/b per coordinate: an in-range coordinate is untouched, any other is clamped onto the violated bound */
__CPROVER_ensures(VAL_A[G] == (V0 > HI_G ? HI_G : (V0 < LO_G ? LO_G : V0)))
__CPROVER_ensures(SAT1(VAL_A[G]))
/*@BODY rv_enforceBounds@*/
bool rv_satisfiesBounds(const RVState *state)
__CPROVER_requires(WF && state->values == VAL_A && V0 == VAL_A[G] && V0 == V0)
__CPROVER_assigns()
__CPROVER_ensures(__CPROVER_return_value ==> SAT1(V0))        /* in bounds => every coordinate within [low-eps, high+eps] */
/*@BODY rv_satisfiesBounds@*/
void rv_sampleUniform(RVState *state)
__CPROVER_requires(WF && state->values == VAL_A)
__CPROVER_assigns(__CPROVER_object_whole(VAL_A))
__CPROVER_ensures(VAL_A[G] >= LO_G && VAL_A[G] <= HI_G)        /* C08.sample */
/*@BODY rv_sampleUniform@*/
void rv_sampleUniformNear(RVState *state, const RVState *near, const double distance)
__CPROVER_requires(WF && state->values == VAL_A && near->values == VAL_B && distance >= 0.0 && IS_FINITE(distance))
__CPROVER_requires(VAL_B[G] >= LO_G && VAL_B[G] <= HI_G)       /* 'near' is in bounds (needed: max(lo, near-d) <= min(hi, near+d)) */
__CPROVER_assigns(__CPROVER_object_whole(VAL_A))
__CPROVER_ensures(VAL_A[G] >= LO_G && VAL_A[G] <= HI_G)
/*@BODY rv_sampleUniformNear@*/
void rv_sampleGaussian(RVState *state, const RVState *mean, const double stdDev)
__CPROVER_requires(WF && state->values == VAL_A && mean->values == VAL_B)
__CPROVER_assigns(__CPROVER_object_whole(VAL_A))
__CPROVER_ensures(VAL_A[G] >= LO_G && VAL_A[G] <= HI_G)
/*@BODY rv_sampleGaussian@*/
void rv_interpolate(const RVState *from, const RVState *to, const double t, RVState *state)
__CPROVER_requires(WF && from->values == VAL_A && to->values == VAL_B && state->values == VAL_C)
__CPROVER_requires(t >= 0.0 && t <= 1.0 && V0 == VAL_A[G] && IS_FINITE(VAL_A[G]) && IS_FINITE(VAL_B[G]) && IS_FINITE(VAL_B[G] - VAL_A[G]))
__CPROVER_assigns(__CPROVER_object_whole(VAL_C))
/* C07.t0 / C07.between / C07.alias: coordinate G of the output is from_G + m with m between 0 and (to_G - from_G), whichever state the output aliases */
__CPROVER_ensures(t == 0.0 ==> state->values[G] == V0)
__CPROVER_ensures(__CPROVER_old(VAL_B[G]) >= V0 ? state->values[G] >= V0 : state->values[G] <= V0)
/*@BODY rv_interpolate@*/
double rv_distance(const RVState *state1, const RVState *state2)
__CPROVER_requires(WF && state1->values == VAL_A && state2->values == VAL_B && IS_FINITE(VAL_A[G]) && IS_FINITE(VAL_B[G]))
__CPROVER_assigns()
__CPROVER_ensures(__CPROVER_return_value >= 0.0 || __CPROVER_return_value != __CPROVER_return_value)   /* C06.nonneg: non-negative (NaN only if a coordinate difference is NaN, i.e. infinite/NaN coordinates) */
/*@BODY rv_distance@*/
bool rv_equalStates(const RVState *state1, const RVState *state2)
__CPROVER_requires(WF && state1->values == VAL_A && state2->values == VAL_B && IS_FINITE(VAL_A[G]) && IS_FINITE(VAL_B[G]))
__CPROVER_assigns()
__CPROVER_ensures(__CPROVER_return_value ==> ((VAL_A[G] - VAL_B[G]) <= DBL_EPSILON * 2.0 && (VAL_B[G] - VAL_A[G]) <= DBL_EPSILON * 2.0))   /* equal => every coordinate within 2 eps */
/*@BODY rv_equalStates@*/

RVState SA, SB, SC;
void h_enforce(void) { rv_enforceBounds(&SA); if (V0 > HI_G) REACH("clamped high"); if (V0 >= LO_G && V0 <= HI_G) REACH("inside"); }
void h_satisfies(void) { bool r = rv_satisfiesBounds(&SA); if (r) REACH("in"); else REACH("out"); }
void h_sampleUniform(void) { rv_sampleUniform(&SA); REACH("done"); }
void h_sampleUniformNear(void) { double d; rv_sampleUniformNear(&SA, &SB, d); REACH("done"); }
void h_sampleGaussian(void) { double d; rv_sampleGaussian(&SA, &SB, d); REACH("done"); }
void h_interpolate(void) { double t; rv_interpolate(&SA, &SB, t, &SC); REACH("done"); }
void h_distance(void) { double d = rv_distance(&SA, &SB); REACH("done"); }
void h_equalStates(void) { bool r = rv_equalStates(&SA, &SB); if (r) REACH("equal"); else REACH("differ"); }
