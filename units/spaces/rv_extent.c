/* C06 -- RealVectorStateSpace::getMaximumExtent and ::distance, term by term (ghost coordinate G):
 * the G-th squared term is the square of (high[G] - low[G]) resp. (s1[G] - s2[G]), exactly `dimension_` terms are accumulated, and the
 * value handed to sqrt is at least the G-th term (a sum of non-negative terms, bit-precise additions).  Together: every coordinate's
 * contribution to a distance between in-bounds states is bounded by its contribution to the extent (the per-coordinate monotonicity of
 * squaring is the trusted IEEE fact), hence distance <= extent up to rounding of the accumulation (not decided). */
#include "fp_stubs.h"
#define SAME(a, b) ((a) == (b) || ((a) != (a) && (b) != (b)))   /* NaN-safe equality */
#ifndef MAXDIM
#define MAXDIM 64
#endif
typedef struct { double *values; } RVState;
double VAL_A[MAXDIM], VAL_B[MAXDIM], LOW[MAXDIM], HIGH[MAXDIM];
unsigned dimension_; unsigned G;
typedef struct { double *low; double *high; } Bounds; Bounds bounds_ = { LOW, HIGH };
unsigned sq_calls; double sq_arg_G, sq_ret_G; double sqrt_arg; unsigned sqrt_calls;
double c_FSQR(double d)          /* d*d, recording the G-th call */
__CPROVER_requires(1)
__CPROVER_assigns(sq_calls, sq_arg_G, sq_ret_G)
__CPROVER_ensures(sq_calls == __CPROVER_old(sq_calls) + 1)
__CPROVER_ensures(d == d ? __CPROVER_return_value >= 0.0 : __CPROVER_return_value != __CPROVER_return_value)
__CPROVER_ensures(__CPROVER_old(sq_calls) == G ? (SAME(sq_arg_G, d) && SAME(sq_ret_G, __CPROVER_return_value)) : (SAME(sq_arg_G, __CPROVER_old(sq_arg_G)) && SAME(sq_ret_G, __CPROVER_old(sq_ret_G))));
double c_SQRTR(double x)
__CPROVER_requires(1)
__CPROVER_assigns(sqrt_arg, sqrt_calls)
__CPROVER_ensures(SAME(sqrt_arg, x) && sqrt_calls == __CPROVER_old(sqrt_calls) + 1)
__CPROVER_ensures(x >= 0.0 ? __CPROVER_return_value >= 0.0 : __CPROVER_return_value != __CPROVER_return_value);
#define WFE (bounds_.low == LOW && bounds_.high == HIGH && dimension_ >= 1 && dimension_ <= MAXDIM && G < dimension_ && sq_calls == 0 && sqrt_calls == 0)

double rv_extent(void)
__CPROVER_requires(WFE && IS_FINITE(LOW[G]) && IS_FINITE(HIGH[G]) && LOW[G] <= HIGH[G])
__CPROVER_assigns(sq_calls, sq_arg_G, sq_ret_G, sqrt_arg, sqrt_calls)
__CPROVER_ensures(sq_calls == dimension_ && sqrt_calls == 1)                          /* one squared term per dimension, one root */
__CPROVER_ensures(sq_arg_G == HIGH[G] - LOW[G])                                        /* C06.extent the G-th term is the width of dimension G */
__CPROVER_ensures(sqrt_arg >= sq_ret_G || sqrt_arg != sqrt_arg)                        /* the root is taken of at least that term */
/*@BODY rv_extent@*/
double rv_distance_terms(const RVState *state1, const RVState *state2)
__CPROVER_requires(WFE && state1->values == VAL_A && state2->values == VAL_B && IS_FINITE(VAL_A[G]) && IS_FINITE(VAL_B[G]))
__CPROVER_assigns(sq_calls, sq_arg_G, sq_ret_G, sqrt_arg, sqrt_calls)
__CPROVER_ensures(sq_calls == dimension_ && sqrt_calls == 1)
__CPROVER_ensures(sq_arg_G == VAL_A[G] - VAL_B[G])                                     /* C06.sum the G-th term is the difference in coordinate G */
__CPROVER_ensures(sqrt_arg >= sq_ret_G || sqrt_arg != sqrt_arg)
/*@BODY rv_distance_terms@*/
RVState SA, SB;
void h_extent(void) { double e = rv_extent(); REACH("done"); }
void h_distance_terms(void) { double d = rv_distance_terms(&SA, &SB); REACH("done"); }
