/* SO2 / Time / Discrete state spaces and their default samplers: bodies extracted from /repo; all functions are
 * loop-free, so each harness is a complete proof over the full domain of its inputs (given the stub contracts). */
#include "fp_stubs.h"
typedef struct { double value; } SO2State;
typedef struct { double position; } TimeState;
typedef struct { int value; } DiscState;
bool bounded_; double minTime_, maxTime_; int lowerBound_, upperBound_;
#define pi PI
#ifndef DISC_RANGE
#define DISC_RANGE 1024
#endif
/* ---- SO2 ---- */
void so2_enforceBounds(SO2State *state)
/*@BODY so2_enforceBounds@*/
bool so2_satisfiesBounds(const SO2State *state)
/*@BODY so2_satisfiesBounds@*/
double so2_distance(const SO2State *state1, const SO2State *state2)
/*@BODY so2_distance@*/
bool so2_equalStates(const SO2State *state1, const SO2State *state2)
/*@BODY so2_equalStates@*/
double so2_getMaximumExtent(void)
/*@BODY so2_extent@*/
void so2_interpolate(const SO2State *from, const SO2State *to, const double t, SO2State *state)
/*@BODY so2_interpolate@*/
void so2_sampleUniform(SO2State *state)
/*@BODY so2_sampleUniform@*/
void so2_sampleUniformNear(SO2State *state, const SO2State *near, const double distance)
/*@BODY so2_sampleUniformNear@*/
void so2_sampleGaussian(SO2State *state, const SO2State *mean, const double stdDev)
/*@BODY so2_sampleGaussian@*/
/* ---- Time ---- */
void time_enforceBounds(TimeState *state)
/*@BODY time_enforceBounds@*/
bool time_satisfiesBounds(const TimeState *state)
/*@BODY time_satisfiesBounds@*/
double time_distance(const TimeState *state1, const TimeState *state2)
/*@BODY time_distance@*/
bool time_equalStates(const TimeState *state1, const TimeState *state2)
/*@BODY time_equalStates@*/
double time_getMaximumExtent(void)
/*@BODY time_extent@*/
void time_interpolate(const TimeState *from, const TimeState *to, const double t, TimeState *state)
/*@BODY time_interpolate@*/
void time_sampleUniform(TimeState *state)
/*@BODY time_sampleUniform@*/
void time_sampleUniformNear(TimeState *state, const TimeState *near, const double distance)
/*@BODY time_sampleUniformNear@*/
void time_sampleGaussian(TimeState *state, const TimeState *mean, const double stdDev)
/*@BODY time_sampleGaussian@*/
/* ---- Discrete ---- */
void disc_enforceBounds(DiscState *state)
/*@BODY disc_enforceBounds@*/
bool disc_satisfiesBounds(const DiscState *state)
/*@BODY disc_satisfiesBounds@*/
double disc_distance(const DiscState *state1, const DiscState *state2)
/*@BODY disc_distance@*/
bool disc_equalStates(const DiscState *state1, const DiscState *state2)
/*@BODY disc_equalStates@*/
double disc_getMaximumExtent(void)
/*@BODY disc_extent@*/
void disc_interpolate(const DiscState *from, const DiscState *to, const double t, DiscState *state)
/*@BODY disc_interpolate@*/
void disc_sampleUniform(DiscState *state)
/*@BODY disc_sampleUniform@*/
void disc_sampleUniformNear(DiscState *state, const DiscState *near, const double distance)
/*@BODY disc_sampleUniformNear@*/
void disc_sampleGaussian(DiscState *state, const DiscState *mean, const double stdDev)
/*@BODY disc_sampleGaussian@*/

/* ================================================================ C08 harnesses */
#define BITEQ(a, b) ((a) == (b) && (1.0 / (a) == 1.0 / (b) || (a) != 0.0))   /* same value incl. the sign of zero */
void h_c08_so2_enforce(void)
{
    SO2State s; s.value = nondet_double(); double v0 = s.value; SO2State in = s; bool sat0 = so2_satisfiesBounds(&in);
    so2_enforceBounds(&s);
    if (sat0) __CPROVER_assert(s.value == v0, "C08.a enforcing bounds leaves an in-bounds state unchanged");
    if (IS_FINITE(v0)) __CPROVER_assert(so2_satisfiesBounds(&s), "C08.b enforcing bounds turns any finite state into one that satisfies the bounds");
    if (IS_FINITE(v0)) { double v1 = s.value; so2_enforceBounds(&s); __CPROVER_assert(s.value == v1, "C08.c enforcing bounds is idempotent"); }
    if (v0 > 100.0) REACH("large positive angle"); if (sat0) REACH("already in bounds"); if (v0 == -PI) REACH("exactly -pi");
}
void h_c08_so2_samplers(void)
{
    SO2State s, n; n.value = nondet_double(); double d = nondet_double(); __CPROVER_assume(IS_FINITE(n.value) && IS_FINITE(d) && d >= 0.0);
    int which = nondet_int();
    if (which == 0) so2_sampleUniform(&s); else if (which == 1) { __CPROVER_assume(so2_satisfiesBounds(&n)); so2_sampleUniformNear(&s, &n, d); } else so2_sampleGaussian(&s, &n, d);
    __CPROVER_assert(so2_satisfiesBounds(&s), "C08.sample every sampled SO(2) state satisfies the bounds");
    if (which == 0) REACH("uniform"); if (which == 1) REACH("near"); if (which == 2) REACH("gaussian");
}
void h_c08_time_enforce(void)
{
    TimeState s; s.position = nondet_double(); double v0 = s.position; __CPROVER_assume(IS_FINITE(minTime_) && IS_FINITE(maxTime_) && minTime_ <= maxTime_);
    TimeState in = s; bool sat0 = time_satisfiesBounds(&in);
    time_enforceBounds(&s);
    /* an in-bounds state within the epsilon slack may be clamped onto the bound it exceeds by <= epsilon: "unchanged" is stated for states strictly inside */
    if (v0 == v0 && (!bounded_ || (v0 >= minTime_ && v0 <= maxTime_))) __CPROVER_assert(s.position == v0, "C08.a enforcing bounds leaves an in-bounds state unchanged");
    if (v0 == v0) __CPROVER_assert(time_satisfiesBounds(&s), "C08.b enforcing bounds yields a state that satisfies the bounds");
    double v1 = s.position; time_enforceBounds(&s); if (v0 == v0) __CPROVER_assert(s.position == v1, "C08.c idempotent");
    if (bounded_ && v0 > maxTime_) REACH("clamped"); if (!bounded_) REACH("unbounded");
}
void h_c08_time_samplers(void)
{
    TimeState s, n; n.position = nondet_double(); double d = nondet_double(); __CPROVER_assume(IS_FINITE(n.position) && IS_FINITE(d) && d >= 0.0 && IS_FINITE(minTime_) && IS_FINITE(maxTime_) && minTime_ <= maxTime_);
    int which = nondet_int();
    if (which == 0) time_sampleUniform(&s); else if (which == 1) time_sampleUniformNear(&s, &n, d); else time_sampleGaussian(&s, &n, d);
    __CPROVER_assert(time_satisfiesBounds(&s), "C08.sample every sampled time state satisfies the bounds");
    if (which == 0) REACH("uniform"); if (which == 1) REACH("near"); if (which == 2) REACH("gaussian");
}
void h_c08_disc_enforce(void)
{
    DiscState s; s.value = nondet_int(); int v0 = s.value; __CPROVER_assume(lowerBound_ <= upperBound_);
    DiscState in = s; bool sat0 = disc_satisfiesBounds(&in);
    disc_enforceBounds(&s);
    if (sat0) __CPROVER_assert(s.value == v0, "C08.a enforcing bounds leaves an in-bounds state unchanged");
    __CPROVER_assert(disc_satisfiesBounds(&s), "C08.b enforcing bounds yields a state that satisfies the bounds");
    int v1 = s.value; disc_enforceBounds(&s); __CPROVER_assert(s.value == v1, "C08.c idempotent");
    if (v0 < lowerBound_) REACH("below"); if (sat0) REACH("inside");
}
void h_c08_disc_samplers(void)
{
    DiscState s, n; n.value = nondet_int(); double d = nondet_double(); __CPROVER_assume(lowerBound_ <= upperBound_ && d >= 0.0 && d < 1.0e6 && n.value > -1000000000 && n.value < 1000000000);
    int which = nondet_int();
    if (which == 0) disc_sampleUniform(&s); else if (which == 1) disc_sampleUniformNear(&s, &n, d); else { __CPROVER_assume(0); disc_sampleGaussian(&s, &n, d); }
    __CPROVER_assert(disc_satisfiesBounds(&s), "C08.sample every sampled discrete state satisfies the bounds");
    if (which == 0) REACH("uniform"); if (which == 1) REACH("near");
}
/* ================================================================ C06 harnesses */
void h_c06_so2(void)
{
    SO2State a, b; a.value = nondet_double(); b.value = nondet_double(); __CPROVER_assume(so2_satisfiesBounds(&a) && so2_satisfiesBounds(&b));
    double d = so2_distance(&a, &b);
    __CPROVER_assert(d >= 0.0, "C06.nonneg distance is non-negative");
    __CPROVER_assert(so2_distance(&a, &a) == 0.0, "C06.self zero from a state to itself");
    __CPROVER_assert(d <= so2_getMaximumExtent(), "C06.extent never larger than the reported maximum extent for in-bounds states");
    __CPROVER_assert(d == so2_distance(&b, &a), "C06.sym symmetric");
#ifndef KF_SO2_SEAM
    __CPROVER_assert(so2_equalStates(&a, &b) || d > 0.0, "C06.pos strictly positive between states that are not equal");
#else
    /* known finding so2-seam: at the +-pi seam the wrapped difference 2*pi - |a-b| rounds to 0 for states 1-2 ulp apart across the seam */
    { double ab = a.value - b.value; if (ab < 0) ab = -ab; if (!(ab > 6.2831853071795853)) __CPROVER_assert(so2_equalStates(&a, &b) || d > 0.0, "C06.pos strictly positive between states that are not equal (outside the known seam zone |a-b| > 2*pi - 3ulp)"); }
#endif
    __CPROVER_assert(so2_equalStates(&a, &a), "a state equals itself");
    if (d > 3.0) REACH("far apart"); if (a.value - b.value > PI) REACH("wraps");
}
void h_c06_time(void)
{
    TimeState a, b; a.position = nondet_double(); b.position = nondet_double(); __CPROVER_assume(IS_FINITE(a.position) && IS_FINITE(b.position) && IS_FINITE(minTime_) && IS_FINITE(maxTime_) && minTime_ <= maxTime_);
    double d = time_distance(&a, &b);
    __CPROVER_assert(d >= 0.0 && time_distance(&a, &a) == 0.0 && d == time_distance(&b, &a), "C06 time distance: non-negative, zero to itself, symmetric");
    __CPROVER_assert(time_equalStates(&a, &b) || d > 0.0, "C06.pos strictly positive between states that are not equal");
    if (bounded_) REACH("bounded"); else REACH("unbounded");
}
void h_c06_disc(void)
{
    DiscState a, b, c; a.value = nondet_int(); b.value = nondet_int(); c.value = nondet_int();
    __CPROVER_assume(lowerBound_ <= upperBound_ && lowerBound_ > -DISC_RANGE && upperBound_ < DISC_RANGE && disc_satisfiesBounds(&a) && disc_satisfiesBounds(&b) && disc_satisfiesBounds(&c));
    double d = disc_distance(&a, &b);
    __CPROVER_assert(d >= 0.0 && disc_distance(&a, &a) == 0.0 && d == disc_distance(&b, &a), "C06 discrete distance: non-negative, zero to itself, symmetric");
    __CPROVER_assert(disc_equalStates(&a, &b) == (d == 0.0), "C06.pos zero exactly between equal states");
    __CPROVER_assert(d <= disc_getMaximumExtent(), "C06.extent within the maximum extent");
    __CPROVER_assert(disc_distance(&a, &c) <= d + disc_distance(&b, &c), "C06.triangle triangle inequality (integer space)");
    if (d > 5.0) REACH("apart");
}
/* ================================================================ C07 harnesses */
void h_c07_so2(void)
{
    SO2State a, b, out; a.value = nondet_double(); b.value = nondet_double(); double t = nondet_double();
    __CPROVER_assume(so2_satisfiesBounds(&a) && so2_satisfiesBounds(&b) && t >= 0.0 && t <= 1.0);
    so2_interpolate(&a, &b, t, &out);
    __CPROVER_assert(so2_satisfiesBounds(&out), "C07.bounds interpolation stays within the space bounds for every t in [0,1]");
    if (t == 0.0) __CPROVER_assert(out.value == a.value, "C07.t0 interpolating at t = 0 yields the first state");
    if (b.value - a.value > PI) REACH("wraps across the seam"); if (t == 1.0) REACH("t == 1"); if (out.value == -PI) REACH("lands on -pi");
}
void h_c07_so2_alias(void)
{
    /* the body reads both inputs before it writes the output: same result when the output aliases either input.
     * (t in {0,1}: there the abstracted product is a function of its arguments, so the three calls are comparable) */
    SO2State a, b, out; a.value = nondet_double(); b.value = nondet_double(); double t = nondet_bool() ? 0.0 : 1.0;
    __CPROVER_assume(so2_satisfiesBounds(&a) && so2_satisfiesBounds(&b));
    so2_interpolate(&a, &b, t, &out);
    SO2State a2 = a, b2 = b; so2_interpolate(&a2, &b2, t, &a2); __CPROVER_assert(a2.value == out.value, "C07.alias same result when the output aliases the first input");
    SO2State a3 = a, b3 = b; so2_interpolate(&a3, &b3, t, &b3); __CPROVER_assert(b3.value == out.value, "C07.alias same result when the output aliases the second input");
    if (t == 1.0) REACH("t == 1");
}
bool nondet_bool(void);
void h_c07_time(void)
{
    TimeState a, b, out; a.position = nondet_double(); b.position = nondet_double(); double t = nondet_double();
    __CPROVER_assume(IS_FINITE(a.position) && IS_FINITE(b.position) && IS_FINITE(b.position - a.position) && t >= 0.0 && t <= 1.0);
    time_interpolate(&a, &b, t, &out);
    if (t == 0.0) __CPROVER_assert(out.position == a.position, "C07.t0 interpolating at t = 0 yields the first state");
    /* the curve never leaves the first state in the wrong direction (from + m with m of the sign of to-from; the 'to' side is known finding rv-overshoot) */
    if (a.position <= b.position) __CPROVER_assert(out.position >= a.position, "C07.between the curve starts at the first state and moves towards the second");
    else __CPROVER_assert(out.position <= a.position, "C07.between the curve starts at the first state and moves towards the second");
    if (t > 0.0 && t < 1.0) REACH("interior");
}
void h_c07_time_alias(void)
{   /* C07.alias: the output may be the same object as either input */
    TimeState a, b; a.position = nondet_double(); b.position = nondet_double(); double t = nondet_double(); bool onto_from = nondet_bool();
    __CPROVER_assume(IS_FINITE(a.position) && IS_FINITE(b.position) && IS_FINITE(b.position - a.position) && t >= 0.0 && t <= 1.0);
    double a0 = a.position, b0 = b.position;
    if (onto_from) time_interpolate(&a, &b, t, &a); else time_interpolate(&a, &b, t, &b);
    double r = onto_from ? a.position : b.position;
    if (t == 0.0) __CPROVER_assert(r == a0, "C07.alias interpolating at t = 0 yields the first state, also into an aliased output");
    if (a0 <= b0) __CPROVER_assert(r >= a0, "C07.alias the aliased result starts at the first state and moves towards the second");
    else __CPROVER_assert(r <= a0, "C07.alias the aliased result starts at the first state and moves towards the second");
    if (onto_from) __CPROVER_assert(b.position == b0, "the other input is untouched"); else __CPROVER_assert(a.position == a0, "the other input is untouched");
    if (onto_from && t > 0.0) REACH("output aliases from"); if (!onto_from) REACH("output aliases to");
}
void h_c07_disc(void)
{
    DiscState a, b, out; a.value = nondet_int(); b.value = nondet_int(); double t = nondet_double();
    __CPROVER_assume(a.value > -DISC_RANGE && a.value < DISC_RANGE && b.value > -DISC_RANGE && b.value < DISC_RANGE && t >= 0.0 && t <= 1.0);
    disc_interpolate(&a, &b, t, &out);
    int lo = a.value < b.value ? a.value : b.value, hi = a.value < b.value ? b.value : a.value;
    __CPROVER_assert(out.value >= lo && out.value <= hi, "C07.bounds the interpolated discrete state lies between its endpoints (hence in bounds)");
    if (t == 0.0) __CPROVER_assert(out.value == a.value, "C07.t0 first state at t = 0");
    if (t == 1.0) __CPROVER_assert(out.value == b.value, "C07.t1 second state at t = 1");
    if (t > 0.0 && t < 1.0 && a.value != b.value) REACH("interior");
}
