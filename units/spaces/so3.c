/* C08 (structural, weak): SO3StateSpace::enforceBounds chooses the first-order renormalisation only when the squared norm
 * is within epsilon of 1, the identity only for (near-)zero quaternions, and the exact 1/sqrt scaling otherwise.
 * The quaternion arithmetic itself (products, sqrt, division) is NOT decided: the three paths are ghost-recorded stubs. */
#include "fp_stubs.h"
double NRMSQ_V; int path_fast, path_exact, path_ident, scaled; double scale_used, fast_v, exact_v;
static double NRMSQ(void) { return NRMSQ_V; }
static double FAST_SCALE(double n) { path_fast++; fast_v = nondet_double(); return fast_v; }
static double EXACT_SCALE(double n) { path_exact++; exact_v = nondet_double(); return exact_v; }
static void SET_IDENTITY(void) { path_ident++; }
static void SCALE_Q(double s) { scaled++; scale_used = s; }
void so3_enforceBounds(void)
/*@BODY so3_enforceBounds@*/
void harness(void)
{
    __CPROVER_assume(NRMSQ_V >= 0.0 && IS_FINITE(NRMSQ_V)); path_fast = path_exact = path_ident = scaled = 0;
    so3_enforceBounds();
    double err = 1.0 - NRMSQ_V; if (err < 0) err = -err;
    __CPROVER_assert(path_fast + path_exact + path_ident == 1, "exactly one normalisation path is taken");
    __CPROVER_assert(path_fast == (err < 2.107342e-08 ? 1 : 0), "C08.so3 the first-order correction is used exactly when | 1 - |q|^2 | is below its epsilon (both for too long and too short quaternions)");
    __CPROVER_assert(path_ident == ((err >= 2.107342e-08 && NRMSQ_V < 1e-6) ? 1 : 0), "C08.so3 the identity replaces (near-)zero quaternions only");
    __CPROVER_assert(path_ident ? scaled == 0 : (scaled == 4 && (scale_used == (path_fast ? fast_v : exact_v) || scale_used != scale_used)), "all four components are scaled by the chosen factor");
    if (path_fast) REACH("fast"); if (path_exact && NRMSQ_V > 1.0) REACH("too long"); if (path_ident) REACH("identity");
}
