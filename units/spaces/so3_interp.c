/* C07 -- SO3StateSpace::interpolate, path selection only (the slerp trigonometry is behind stubs): the quotient 1 / sin(theta) is formed only when the arc
 * length theta between the two rotations exceeds epsilon (so the result cannot be NaN for equal or antipodal representations); otherwise the result is a
 * copy of `from` -- also at t = 0, and with the output aliasing `from` nothing is copied; the long-angle case flips the sign of the second weight. */
#include <stdbool.h>
#include <float.h>
#include <stddef.h>
#define REACH(msg) __CPROVER_assert(0, "REACH " msg)
typedef struct { double x, y, z, w; } SO3State;
double THETA, DOT; unsigned recips, copies; double recip_arg; const SO3State *copy_dst, *copy_src; bool s1_negated; double SIN_RET[3]; unsigned sins;
static double ARCLEN(const SO3State *a, const SO3State *b) { return THETA; }
static double RECIP_SIN(double theta) { recips++; recip_arg = theta; __CPROVER_assert(theta > DBL_EPSILON, "C07.nan 1/sin(theta) is only formed for theta > epsilon"); return 1.0; }
static double SIN_(double x) { __CPROVER_assume(sins < 3); return SIN_RET[sins++]; }
static double DOT4(const SO3State *a, const SO3State *b) { return DOT; }
static double MIX(double a, double s0, double b, double s1, double d) { if (s1 == -SIN_RET[1] && SIN_RET[1] != 0.0) s1_negated = true; return 0.5; }
static void COPY_STATE(SO3State *dst, const SO3State *src) { copies++; copy_dst = dst; copy_src = src; *dst = *src; }
void so3_interpolate(const SO3State *from, const SO3State *to, const double t, SO3State *state)
/*@BODY so3_interpolate@*/
void h_so3_interpolate(void)
{
    SO3State a, b, c; double t; __CPROVER_assume(t >= 0.0 && t <= 1.0 && THETA >= 0.0 && THETA <= 1.6 && DOT >= -1.0 && DOT <= 1.0 && SIN_RET[1] == SIN_RET[1]);
    recips = 0; copies = 0; sins = 0; s1_negated = false; bool alias = false; SO3State *out = &c; if (alias) out = &a; SO3State a0 = a;
    __CPROVER_assume(a.x == a.x && a.y == a.y && a.z == a.z && a.w == a.w);
    so3_interpolate(&a, &b, t, out);
    if (THETA > DBL_EPSILON) { __CPROVER_assert(recips == 1 && recip_arg == THETA && copies == 0, "the slerp branch is taken exactly for separated rotations"); __CPROVER_assert(s1_negated == (DOT < 0 && SIN_RET[1] != 0.0), "C07.long-angle the second weight is negated exactly for a negative dot product"); REACH("slerp"); }
    else { __CPROVER_assert(recips == 0, "C07.nan no division for coinciding rotations"); __CPROVER_assert(out->x == a0.x && out->y == a0.y && out->z == a0.z && out->w == a0.w, "C07.t0 the result is `from` when the rotations coincide (for every t)"); REACH("copy"); }
}
void h_so3_interpolate_alias(void)
{
    SO3State a, b; double t; __CPROVER_assume(t >= 0.0 && t <= 1.0 && THETA >= 0.0 && THETA <= DBL_EPSILON); recips = 0; copies = 0; sins = 0;
    so3_interpolate(&a, &b, t, &a);
    __CPROVER_assert(copies == 0 && recips == 0, "C07.alias with the output aliasing `from` nothing is copied onto itself"); REACH("aliased");
}
