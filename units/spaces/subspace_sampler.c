/* C08 -- SubspaceStateSampler (StateSampler.cpp): the three sampling modes draw the sub-state with the subspace's own sampler into the work state and copy
 * exactly that work state into the output; the reference state (near / mean) is first projected into a SECOND work state, so the subspace sampler is never
 * asked to write its output over the state it is sampling around (samplers -- e.g. SO(3)'s Gaussian -- are not alias-safe), and the distance / standard
 * deviation is scaled by the subspace weight. */
#include <stdbool.h>
#include <stddef.h>
#define REACH(msg) __CPROVER_assert(0, "REACH " msg)
typedef int SRef;                 /* state handles */
#define SPACE_ 1
#define SUBSPACE_ 2
SRef work_ = 11, work2_ = 12; double weight_;
int mode; SRef samp_out, samp_ref; double samp_arg; unsigned samp_calls;
unsigned copies; int cp_dst_space[4]; SRef cp_dst[4]; int cp_src_space[4]; SRef cp_src[4]; unsigned cp_at_sample;
static void COPY_DATA(int dspace, SRef dst, int sspace, SRef src) { __CPROVER_assert(copies < 4, "model capacity"); cp_dst_space[copies] = dspace; cp_dst[copies] = dst; cp_src_space[copies] = sspace; cp_src[copies] = src; copies++; }
static double FMULW(double a, double w) { return a; }   /* distance * weight_: the factor is checked below, the product is not re-derived */
double scale_a, scale_w; 
static double SCALED(double a, double w) { scale_a = a; scale_w = w; return 42.0; }
static void SUB_sampleUniform(SRef out) { samp_calls++; mode = 1; samp_out = out; cp_at_sample = copies; }
static void SUB_sampleUniformNear(SRef out, SRef near, double d) { __CPROVER_assert(out != near, "C08.alias the subspace sampler's output does not alias the state it samples near"); samp_calls++; mode = 2; samp_out = out; samp_ref = near; samp_arg = d; cp_at_sample = copies; }
static void SUB_sampleGaussian(SRef out, SRef mean, double s) { __CPROVER_assert(out != mean, "C08.alias the subspace sampler's output does not alias the mean"); samp_calls++; mode = 3; samp_out = out; samp_ref = mean; samp_arg = s; cp_at_sample = copies; }
void sss_sampleUniform(SRef state)
/*@BODY sss_sampleUniform@*/
void sss_sampleUniformNear(SRef state, const SRef near, const double distance)
/*@BODY sss_sampleUniformNear@*/
void sss_sampleGaussian(SRef state, const SRef mean, const double stdDev)
/*@BODY sss_sampleGaussian@*/
static void common_post(SRef state)
{
    __CPROVER_assert(samp_calls == 1 && samp_out == work_, "the sub-state is drawn once, into the work state");
    __CPROVER_assert(copies == cp_at_sample + 1 && cp_dst_space[copies - 1] == SPACE_ && cp_dst[copies - 1] == state && cp_src_space[copies - 1] == SUBSPACE_ && cp_src[copies - 1] == work_, "C08.result the drawn sub-state (and nothing else) is copied into the output AFTER it was drawn");
}
void h_sss_uniform(void) { work_ = 11; work2_ = 12; copies = 0; samp_calls = 0; sss_sampleUniform(5); common_post(5); __CPROVER_assert(mode == 1, "uniform mode"); REACH("uniform"); }
void h_sss_near(void)
{
    work_ = 11; work2_ = 12; copies = 0; samp_calls = 0; double d; __CPROVER_assume(d == d && weight_ == weight_); sss_sampleUniformNear(5, 6, d); common_post(5);
    __CPROVER_assert(mode == 2 && samp_ref == work2_ && cp_at_sample == 1 && cp_dst_space[0] == SUBSPACE_ && cp_dst[0] == work2_ && cp_src_space[0] == SPACE_ && cp_src[0] == 6, "the reference state is projected into the second work state before sampling");
    __CPROVER_assert(samp_arg == 42.0 && scale_a == d && scale_w == weight_, "C08.near the distance is scaled by the subspace weight"); REACH("near");
}
void h_sss_gaussian(void)
{
    work_ = 11; work2_ = 12; copies = 0; samp_calls = 0; double d; __CPROVER_assume(d == d && weight_ == weight_); sss_sampleGaussian(5, 6, d); common_post(5);
    __CPROVER_assert(mode == 3 && samp_ref == work2_ && cp_at_sample == 1 && cp_dst_space[0] == SUBSPACE_ && cp_dst[0] == work2_ && cp_src_space[0] == SPACE_ && cp_src[0] == 6, "the mean is projected into the second work state before sampling");
    __CPROVER_assert(samp_arg == 42.0 && scale_a == d && scale_w == weight_, "the standard deviation is scaled by the subspace weight"); REACH("gaussian");
}
