/* C08: the six valid-state samplers (sample / sampleNear), bodies extracted from /repo.
 * States are three abstract objects (the caller's state, the sampler's scratch state, the 'near' state) carrying ghost
 * content: ver = modification count, appr = the version the validity checker last approved, inb = in bounds.
 * Component contracts used (each proved/claimed elsewhere): state samplers produce in-bounds states (C08 sampler units),
 * interpolate of two in-bounds states is in bounds (C07), checkMotion(s1,s2,lastValid) with valid s1 leaves a valid,
 * in-bounds last-valid state (C05.c).  Bounded: attempts_ <= 3, improveAttempts_ <= 3 (loop bodies are history-free). */
#include "fp_stubs.h"
enum { S_STATE = 0, S_TEMP = 1, S_NEAR = 2 };
int ver[3], appr[3]; bool inb[3]; bool live_tmp; unsigned attempts_, improveAttempts_; double clearance_, stddev_;
static void touch(int x) { __CPROVER_assert(x == S_STATE || x == S_TEMP, "only the output state and the scratch state are written (never 'near')"); ver[x]++; }
static void S_sampleUniform(int x) { touch(x); inb[x] = 1; }
static void S_sampleUniformNear(int x, int near) { __CPROVER_assert(near == S_NEAR, "near"); touch(x); inb[x] = 1; }
static void S_sampleGaussian(int x, int mean) { __CPROVER_assert(ver[mean] >= 0, "mean"); touch(x); inb[x] = 1; }
static bool S_isValid(int x) { bool r = nondet_bool(); if (r) appr[x] = ver[x]; else appr[x] = -1; return r; }
static bool S_isValidD(int x, double *d) { *d = nondet_double(); __CPROVER_assume(*d == *d); return S_isValid(x); }
static void S_copy(int dst, int src) { bool ok = appr[src] == ver[src]; touch(dst); appr[dst] = ok ? ver[dst] : -1; inb[dst] = inb[src]; }
static void S_interp(int a, int b, int out) { __CPROVER_assert(inb[a] && inb[b], "interpolate is given in-bounds states"); touch(out); appr[out] = -1; inb[out] = 1; }
static void S_checkMotion_lastvalid(int s1, int s2) { __CPROVER_assert(appr[s1] == ver[s1], "C05 precondition: checkMotion starts from a state that was approved valid"); __CPROVER_assert(inb[s1] && inb[s2], "in-bounds endpoints"); touch(s2); appr[s2] = ver[s2]; inb[s2] = 1; }
static int S_alloc(void) { __CPROVER_assert(!live_tmp, "one scratch state at a time"); live_tmp = 1; ver[S_TEMP]++; appr[S_TEMP] = -1; inb[S_TEMP] = 0; return S_TEMP; }
static void S_free(int x) { __CPROVER_assert(x == S_TEMP && live_tmp, "free of the allocated scratch state, once"); live_tmp = 0; }

bool uniform_sample(int state)
/*@BODY uniform_sample@*/
bool uniform_sampleNear(int state, int near, const double distance)
/*@BODY uniform_sampleNear@*/
bool gaussian_sample(int state)
/*@BODY gaussian_sample@*/
bool gaussian_sampleNear(int state, int near, const double distance)
/*@BODY gaussian_sampleNear@*/
bool obstacle_sample(int state)
/*@BODY obstacle_sample@*/
bool obstacle_sampleNear(int state, int near, const double distance)
/*@BODY obstacle_sampleNear@*/
bool bridge_sample(int state)
/*@BODY bridge_sample@*/
bool bridge_sampleNear(int state, int near, const double distance)
/*@BODY bridge_sampleNear@*/
bool maxclear_sample(int state)
/*@BODY maxclear_sample@*/
bool maxclear_sampleNear(int state, int near, const double distance)
/*@BODY maxclear_sampleNear@*/
bool minclear_sample(int state)
/*@BODY minclear_sample@*/
bool minclear_sampleNear(int state, int near, const double distance)
/*@BODY minclear_sampleNear@*/

static void init(bool scratch_is_member)
{
    for (int i = 0; i < 3; i++) { ver[i] = 0; appr[i] = -1; inb[i] = 0; }
    inb[S_NEAR] = 1; live_tmp = 0; __CPROVER_assume(attempts_ >= 1 && attempts_ <= 3 && improveAttempts_ <= 3 && clearance_ == clearance_);
}
static void check(bool r)
{
    if (r) __CPROVER_assert(appr[S_STATE] == ver[S_STATE], "C08.valid a state returned with success was approved by the validity checker after its last modification");
    if (r) __CPROVER_assert(inb[S_STATE], "C08.valid a state returned with success is in bounds");
    __CPROVER_assert(!live_tmp, "scratch state freed");
    __CPROVER_assert(ver[S_NEAR] == 0, "'near' is not modified");
    if (r) REACH("success"); else REACH("failure");
}
#define H(name) void h_##name##_sample(void) { init(0); bool r = name##_sample(S_STATE); check(r); } \
                void h_##name##_sampleNear(void) { init(0); double d = nondet_double(); bool r = name##_sampleNear(S_STATE, S_NEAR, d); check(r); }
H(uniform) H(gaussian) H(obstacle) H(bridge) H(maxclear) H(minclear)
