/* WrapperStateSpace (base/spaces/WrapperStateSpace.h): every forwarded method calls THE method of the same name on the wrapped space, once,
 * with the wrapped states of its own arguments in the same order, and returns what that call returned.  This is what lets every law proved for a
 * space (metric claims, bounds, copies, serialization, interpolation) carry over to the wrapped form of it. */
#include <stdbool.h>
#include <stddef.h>
#define REACH(msg) __CPROVER_assert(0, "REACH " msg)
typedef struct { int inner; } WState;
#define UNWRAP(s) ((const void *)&((s)->inner))
enum { ID_isMetricSpace = 1, ID_hasSymmetricDistance, ID_hasSymmetricInterpolate, ID_getMaximumExtent, ID_getMeasure, ID_getDimension, ID_enforceBounds, ID_satisfiesBounds,
       ID_copyState, ID_distance, ID_getSerializationLength, ID_serialize, ID_deserialize, ID_equalStates, ID_interpolate, ID_validSegmentCount, ID_copyToReals, ID_copyFromReals,
       ID_getValueAddressAtIndex, ID_isCompound, ID_isDiscrete, ID_isHybrid, ID_getLongestValidSegmentFraction, ID_getLongestValidSegmentLength, ID_getValidSegmentCountFactor };
int called, ncalls; const void *pa[4]; double da; unsigned ua;
bool RET_B; double RET_D; unsigned RET_U; double *RET_P;
static void rec(int id, const void *a, const void *b, const void *c, double d, unsigned u) { called = id; ncalls++; pa[0] = a; pa[1] = b; pa[2] = c; da = d; ua = u; }
#define W_isMetricSpace() (rec(ID_isMetricSpace, 0, 0, 0, 0, 0), RET_B)
#define W_hasSymmetricDistance() (rec(ID_hasSymmetricDistance, 0, 0, 0, 0, 0), RET_B)
#define W_hasSymmetricInterpolate() (rec(ID_hasSymmetricInterpolate, 0, 0, 0, 0, 0), RET_B)
#define W_isCompound() (rec(ID_isCompound, 0, 0, 0, 0, 0), RET_B)
#define W_isDiscrete() (rec(ID_isDiscrete, 0, 0, 0, 0, 0), RET_B)
#define W_isHybrid() (rec(ID_isHybrid, 0, 0, 0, 0, 0), RET_B)
#define W_getMaximumExtent() (rec(ID_getMaximumExtent, 0, 0, 0, 0, 0), RET_D)
#define W_getMeasure() (rec(ID_getMeasure, 0, 0, 0, 0, 0), RET_D)
#define W_getLongestValidSegmentFraction() (rec(ID_getLongestValidSegmentFraction, 0, 0, 0, 0, 0), RET_D)
#define W_getLongestValidSegmentLength() (rec(ID_getLongestValidSegmentLength, 0, 0, 0, 0, 0), RET_D)
#define W_getValidSegmentCountFactor() (rec(ID_getValidSegmentCountFactor, 0, 0, 0, 0, 0), RET_U)
#define W_getDimension() (rec(ID_getDimension, 0, 0, 0, 0, 0), RET_U)
#define W_getSerializationLength() (rec(ID_getSerializationLength, 0, 0, 0, 0, 0), RET_U)
#define W_enforceBounds(a) rec(ID_enforceBounds, a, 0, 0, 0, 0)
#define W_satisfiesBounds(a) (rec(ID_satisfiesBounds, a, 0, 0, 0, 0), RET_B)
#define W_copyState(a, b) rec(ID_copyState, a, b, 0, 0, 0)
#define W_distance(a, b) (rec(ID_distance, a, b, 0, 0, 0), RET_D)
#define W_equalStates(a, b) (rec(ID_equalStates, a, b, 0, 0, 0), RET_B)
#define W_validSegmentCount(a, b) (rec(ID_validSegmentCount, a, b, 0, 0, 0), RET_U)
#define W_serialize(a, b) rec(ID_serialize, a, b, 0, 0, 0)
#define W_deserialize(a, b) rec(ID_deserialize, a, b, 0, 0, 0)
#define W_interpolate(a, b, t, c) rec(ID_interpolate, a, b, c, t, 0)
#define W_copyToReals(a, b) rec(ID_copyToReals, a, b, 0, 0, 0)
#define W_copyFromReals(a, b) rec(ID_copyFromReals, a, b, 0, 0, 0)
#define W_getValueAddressAtIndex(a, i) (rec(ID_getValueAddressAtIndex, a, 0, 0, 0, i), RET_P)

bool w_isMetricSpace(void)
/*@BODY w_isMetricSpace@*/
bool w_hasSymmetricDistance(void)
/*@BODY w_hasSymmetricDistance@*/
bool w_hasSymmetricInterpolate(void)
/*@BODY w_hasSymmetricInterpolate@*/
bool w_isCompound(void)
/*@BODY w_isCompound@*/
bool w_isDiscrete(void)
/*@BODY w_isDiscrete@*/
bool w_isHybrid(void)
/*@BODY w_isHybrid@*/
double w_getMaximumExtent(void)
/*@BODY w_getMaximumExtent@*/
double w_getMeasure(void)
/*@BODY w_getMeasure@*/
double w_getLongestValidSegmentFraction(void)
/*@BODY w_getLongestValidSegmentFraction@*/
double w_getLongestValidSegmentLength(void)
/*@BODY w_getLongestValidSegmentLength@*/
unsigned w_getValidSegmentCountFactor(void)
/*@BODY w_getValidSegmentCountFactor@*/
unsigned w_getDimension(void)
/*@BODY w_getDimension@*/
unsigned w_getSerializationLength(void)
/*@BODY w_getSerializationLength@*/
void w_enforceBounds(WState *state)
/*@BODY w_enforceBounds@*/
bool w_satisfiesBounds(const WState *state)
/*@BODY w_satisfiesBounds@*/
void w_copyState(WState *destination, const WState *source)
/*@BODY w_copyState@*/
double w_distance(const WState *state1, const WState *state2)
/*@BODY w_distance@*/
bool w_equalStates(const WState *state1, const WState *state2)
/*@BODY w_equalStates@*/
unsigned w_validSegmentCount(const WState *state1, const WState *state2)
/*@BODY w_validSegmentCount@*/
void w_serialize(void *serialization, const WState *state)
/*@BODY w_serialize@*/
void w_deserialize(WState *state, const void *serialization)
/*@BODY w_deserialize@*/
void w_interpolate(const WState *from, const WState *to, double t, WState *state)
/*@BODY w_interpolate@*/
void w_copyToReals(void *reals, const WState *source)
/*@BODY w_copyToReals@*/
void w_copyFromReals(WState *destination, const void *reals)
/*@BODY w_copyFromReals@*/
double *w_getValueAddressAtIndex(WState *state, unsigned int index)
/*@BODY w_getValueAddressAtIndex@*/

#define CHK0(fn, id, ret, RET) do { ncalls = 0; called = 0; __CPROVER_assert(SAMEV(fn(), RET) && ncalls == 1 && called == id, "wrapper." #fn " forwards to the wrapped space's " #fn " and returns its answer"); } while (0)
#define SAMEV(a, b) ((a) == (b) || ((a) != (a) && (b) != (b)))
void h_forwarders(void)
{
    WState a, b, c; char buf[4]; double t;
    __CPROVER_assume(RET_D == RET_D);
    CHK0(w_isMetricSpace, ID_isMetricSpace, bool, RET_B); CHK0(w_hasSymmetricDistance, ID_hasSymmetricDistance, bool, RET_B); CHK0(w_hasSymmetricInterpolate, ID_hasSymmetricInterpolate, bool, RET_B);
    CHK0(w_isCompound, ID_isCompound, bool, RET_B); CHK0(w_isDiscrete, ID_isDiscrete, bool, RET_B); CHK0(w_isHybrid, ID_isHybrid, bool, RET_B);
    CHK0(w_getMaximumExtent, ID_getMaximumExtent, double, RET_D); CHK0(w_getMeasure, ID_getMeasure, double, RET_D);
    CHK0(w_getLongestValidSegmentFraction, ID_getLongestValidSegmentFraction, double, RET_D); CHK0(w_getLongestValidSegmentLength, ID_getLongestValidSegmentLength, double, RET_D);
    CHK0(w_getValidSegmentCountFactor, ID_getValidSegmentCountFactor, unsigned, RET_U); CHK0(w_getDimension, ID_getDimension, unsigned, RET_U); CHK0(w_getSerializationLength, ID_getSerializationLength, unsigned, RET_U);
    ncalls = 0; w_enforceBounds(&a); __CPROVER_assert(ncalls == 1 && called == ID_enforceBounds && pa[0] == UNWRAP(&a), "wrapper.enforceBounds acts on the wrapped state");
    ncalls = 0; bool sb = w_satisfiesBounds(&a); __CPROVER_assert(ncalls == 1 && called == ID_satisfiesBounds && pa[0] == UNWRAP(&a) && sb == RET_B, "wrapper.satisfiesBounds asks about the wrapped state");
    ncalls = 0; w_copyState(&a, &b); __CPROVER_assert(ncalls == 1 && called == ID_copyState && pa[0] == UNWRAP(&a) && pa[1] == UNWRAP(&b), "wrapper.copyState copies source into destination (in this order)");
    ncalls = 0; double d = w_distance(&a, &b); __CPROVER_assert(ncalls == 1 && called == ID_distance && pa[0] == UNWRAP(&a) && pa[1] == UNWRAP(&b) && d == RET_D, "wrapper.distance is the wrapped distance of the wrapped states");
    ncalls = 0; bool e = w_equalStates(&a, &b); __CPROVER_assert(ncalls == 1 && called == ID_equalStates && pa[0] == UNWRAP(&a) && pa[1] == UNWRAP(&b) && e == RET_B, "wrapper.equalStates is the wrapped equality of the wrapped states");
    ncalls = 0; unsigned n = w_validSegmentCount(&a, &b); __CPROVER_assert(ncalls == 1 && called == ID_validSegmentCount && pa[0] == UNWRAP(&a) && pa[1] == UNWRAP(&b) && n == RET_U, "wrapper.validSegmentCount is the wrapped count");
    ncalls = 0; w_serialize(buf, &a); __CPROVER_assert(ncalls == 1 && called == ID_serialize && pa[0] == (const void *)buf && pa[1] == UNWRAP(&a), "wrapper.serialize writes the wrapped state to the given buffer");
    ncalls = 0; w_deserialize(&a, buf); __CPROVER_assert(ncalls == 1 && called == ID_deserialize && pa[0] == UNWRAP(&a) && pa[1] == (const void *)buf, "wrapper.deserialize reads the wrapped state from the given buffer");
    ncalls = 0; __CPROVER_assume(t == t); w_interpolate(&a, &b, t, &c); __CPROVER_assert(ncalls == 1 && called == ID_interpolate && pa[0] == UNWRAP(&a) && pa[1] == UNWRAP(&b) && pa[2] == UNWRAP(&c) && da == t, "wrapper.interpolate interpolates the wrapped states with the same parameter");
    ncalls = 0; w_copyToReals(buf, &a); __CPROVER_assert(ncalls == 1 && called == ID_copyToReals && pa[0] == (const void *)buf && pa[1] == UNWRAP(&a), "wrapper.copyToReals converts the wrapped state");
    ncalls = 0; w_copyFromReals(&a, buf); __CPROVER_assert(ncalls == 1 && called == ID_copyFromReals && pa[0] == UNWRAP(&a) && pa[1] == (const void *)buf, "wrapper.copyFromReals fills the wrapped state");
    unsigned ix; ncalls = 0; double *p = w_getValueAddressAtIndex(&a, ix); __CPROVER_assert(ncalls == 1 && called == ID_getValueAddressAtIndex && pa[0] == UNWRAP(&a) && ua == ix && p == RET_P, "wrapper.getValueAddressAtIndex addresses the wrapped state's value");
    REACH("all forwarders exercised");
}
