"""Shared source definitions for the state-space units (C06, C07, C08, C09)."""
SO2 = "src/ompl/base/spaces/src/SO2StateSpace.cpp"
TIME = "src/ompl/base/spaces/src/TimeStateSpace.cpp"
DISC = "src/ompl/base/spaces/src/DiscreteStateSpace.cpp"
RV = "src/ompl/base/spaces/src/RealVectorStateSpace.cpp"
SS = "src/ompl/base/src/StateSpace.cpp"
SAMP = "src/ompl/base/src/StateSampler.cpp"

from vf.extract import cxx_refs_to_pointers
BASE_RULES = [
    (cxx_refs_to_pointers,),
    (r"BOOST_ASSERT_MSG\([^;]*\);", "", 0),
    (r"->as<(?:\w+::)?StateType>\(\)", "", 0),
    (r"space_->as<TimeStateSpace>\(\)->isBounded\(\)", "bounded_", 0),
    (r"space_->as<TimeStateSpace>\(\)->getMinTimeBound\(\)", "minTime_", 0),
    (r"space_->as<TimeStateSpace>\(\)->getMaxTimeBound\(\)", "maxTime_", 0),
    (r"space_->as<DiscreteStateSpace>\(\)->getLowerBound\(\)", "lowerBound_", 0),
    (r"space_->as<DiscreteStateSpace>\(\)->getUpperBound\(\)", "upperBound_", 0),
    (r"rng_\.uniformReal\(", "uniformReal(", 0), (r"rng_\.uniformInt\(", "uniformInt(", 0), (r"rng_\.gaussian\(", "gaussian(", 0),
    (r"\bfmod\(", "FMOD(", 0), (r"\bfloor\(", "FLOOR(", 0), (r"(?<![\w.])sqrt\(", "SQRT(", 0), (r"std::sqrt\(", "SQRT(", 0),
    (r"std::numeric_limits<double>::epsilon\(\)", "DBL_EPSILON", 0),
    (r"std::max\(", "MAXD(", 0), (r"std::min\(", "MIND(", 0),
    (r"\bdiff \* t\b", "FMUL01(diff, t)", 0),
    (r"\(([^()]*->\w+(?:\[\w+\])? - [^()]*->\w+(?:\[\w+\])?)\) \* t\b", r"FMUL01((double)(\1), t)", 0),
    (r"const auto d = ", "const int d = ", 0),
    (r"(\(\*\w+_\)) \* t\b", r"FMUL01(\1, t)", 0),      # a product with the interpolation parameter formed through a local reference
]


def src(prefix, name, file, sig, extra=()):
    rules = list(extra) + [(r"space_->enforceBounds\(state\);", prefix + "_enforceBounds(state);", 0)] + BASE_RULES
    return dict(name=prefix + "_" + name, file=file, sig=sig, rules=rules, loops={})


def scalar_sources():
    out = []
    for prefix, cls, samp, f in (("so2", "SO2StateSpace", "SO2StateSampler", SO2), ("time", "TimeStateSpace", "TimeStateSampler", TIME), ("disc", "DiscreteStateSpace", "DiscreteStateSampler", DISC)):
        out += [
            src(prefix, "enforceBounds", f, r"void ompl::base::%s::enforceBounds\(State \*state\) const" % cls),
            src(prefix, "satisfiesBounds", f, r"bool ompl::base::%s::satisfiesBounds\(const State \*state\) const" % cls),
            src(prefix, "distance", f, r"double ompl::base::%s::distance\(const State \*state1, const State \*state2\) const" % cls),
            src(prefix, "equalStates", f, r"bool ompl::base::%s::equalStates\(const State \*state1, const State \*state2\) const" % cls),
            src(prefix, "extent", f, r"double ompl::base::%s::getMaximumExtent\(\) const" % cls),
            src(prefix, "interpolate", f, r"void ompl::base::%s::interpolate\(const State \*from, const State \*to, const double t,\s*State \*state\) const" % cls),
            src(prefix, "sampleUniform", f, r"void ompl::base::%s::sampleUniform\(State \*state\)" % samp),
            src(prefix, "sampleUniformNear", f, r"void ompl::base::%s::sampleUniformNear\(State \*state, const State \*near, const double distance\)" % samp),
            src(prefix, "sampleGaussian", f, r"void ompl::base::%s::sampleGaussian\(State \*state, const State \*mean, const double stdDev\)" % samp),
        ]
    return out


PFLAGS = ["--bounds-check", "--pointer-check", "--signed-overflow-check", "--conversion-check", "--div-by-zero-check"]
FP_ASSUMPTIONS = [
    "floating point: + - and comparisons are bit-precise; x*t (0<=t<=1), fmod, floor, sqrt are trusted external operations with IEEE/C99 contracts (units/spaces/fp_stubs.h)",
    "RNG contract: uniformReal(a,b) in [a,b) for a<b (ompl::RNG computes (b-a)*u+a with u in [0,1)), uniformInt(a,b) in [a,b], gaussian any finite value of magnitude < 1e9; the calls' own precondition lower<=upper is checked",
]


def scalar_unit(name, entry, functions, canaries=(), backend="cadical", defines=None, timeout=900):
    srcs = scalar_sources()
    pref = "so2_" if "so2" in entry else ("time_" if "time" in entry else ("disc_" if "disc" in entry else None))
    d = dict(name=name, template="spaces/scalar.c", mode="plain", entry=entry, sources=srcs, flags=PFLAGS, level="proof",
             functions=functions, canaries=list(canaries), backend=backend, defines=defines or {}, timeout=timeout)
    if pref:
        d["needs"] = [x["name"] for x in srcs if x["name"].startswith(pref)]    # a rewritten body of another space must not take this unit down
    return d


# ---------------------------------------------------------------- compound delegation loops
COMP_RULES = [
    (r"(?:const )?auto \*c\w+ = static_cast<(?:const )?CompoundState \*>\(\w+\);", "", 0),
    (r"State \*\*\w+ = \w+->as<CompoundState>\(\)->components;", "", 0),
    (r"components_\[i\]->enforceBounds\(cstate->components\[i\]\)", "comp_enforceBounds(i)", 0),
    (r"components_\[i\]->satisfiesBounds\(cstate->components\[i\]\)", "comp_satisfiesBounds(i)", 0),
    (r"samplers_\[i\]->sampleUniform\(comps\[i\]\)", "samp_sampleUniform(i)", 0),
    (r"samplers_\[i\]->sampleUniformNear\(comps\[i\], nearComps\[i\], distance \* weightImportance_\[i\]\)", "samp_sampleUniformNear(i, FMULW(distance, weightImportance(i)))", 0),
    (r"samplers_\[i\]->sampleGaussian\(comps\[i\], meanComps\[i\], stdDev \* weightImportance_\[i\]\)", "samp_sampleGaussian(i, FMULW(stdDev, weightImportance(i)))", 0),
    (r"weightImportance_\[i\]", "weightImportance(i)", 0),
    (r"components_\[i\]->interpolate\(cfrom->components\[i\], cto->components\[i\], t, cstate->components\[i\]\)", "comp_interpolate(i, t)", 0),
    (r"weights_\[i\] \* components_\[i\]->distance\(cstate1->components\[i\], cstate2->components\[i\]\)", "comp_weighted_distance(i)", 0),
    (r"components_\[i\]->equalStates\(c\w+->components\[i\], c\w+->components\[i\]\)", "comp_equalStates(i)", 0),
    (r"std::numeric_limits<double>::epsilon\(\)", "DBL_EPSILON", 0),
]
LOOP_G = lambda extra_assigns, inv: """
__CPROVER_assigns(i%s)
__CPROVER_loop_invariant(i <= N_ && %s)
__CPROVER_decreases(N_ - i)
""" % (extra_assigns, inv)


def compound_sources():
    def C(name, file, sig, loop):
        return dict(name=name, file=file, sig=sig, rules=COMP_RULES, loops={1: loop})
    cc, sc = "componentCount_", "samplerCount_"
    return [
        C("c_enforceBounds", SS, r"void ompl::base::CompoundStateSpace::enforceBounds\(State \*state\) const",
          LOOP_G(", satG, callsG", "(G < i ? (satG && callsG == 1) : callsG == 0)").replace("N_", cc)),
        C("c_satisfiesBounds", SS, r"bool ompl::base::CompoundStateSpace::satisfiesBounds\(const State \*state\) const",
          LOOP_G(", checkedG, any_unsat", "!any_unsat && (G < i ? (checkedG && SATV) : !checkedG)").replace("N_", cc)),
        C("cs_sampleUniform", SAMP, r"void ompl::base::CompoundStateSampler::sampleUniform\(State \*state\)",
          LOOP_G(", satG, callsG, uniformG", "(G < i ? (satG && callsG == 1 && uniformG == 1) : (callsG == 0 && uniformG == 0))").replace("N_", sc)),
        C("cs_sampleUniformNear", SAMP, r"void ompl::base::CompoundStateSampler::sampleUniformNear\(State \*state, const State \*near, const double distance\)",
          LOOP_G(", satG, callsG, uniformG, nearG, argG", "(G < i ? (satG && callsG == 1 && (W_G > DBL_EPSILON ? (nearG == 1 && uniformG == 0) : (uniformG == 1 && nearG == 0))) : (callsG == 0 && uniformG == 0 && nearG == 0))").replace("N_", sc)),
        C("cs_sampleGaussian", SAMP, r"void ompl::base::CompoundStateSampler::sampleGaussian\(State \*state, const State \*mean, const double stdDev\)",
          LOOP_G(", satG, callsG, gaussG, argG", "(G < i ? (satG && callsG == 1 && gaussG == 1) : (callsG == 0 && gaussG == 0))").replace("N_", sc)),
        C("c_interpolate", SS, r"void ompl::base::CompoundStateSpace::interpolate\(const State \*from, const State \*to, const double t, State \*state\) const",
          LOOP_G(", interpG, tG", "(G < i ? (interpG == 1 && tG == t) : interpG == 0)").replace("N_", cc)),
        C("c_distance", SS, r"double ompl::base::CompoundStateSpace::distance\(const State \*state1, const State \*state2\) const",
          LOOP_G(", dist, termsG, next_term, chain_ok", "dist >= 0.0 && chain_ok && next_term == i && termsG == (G < i ? 1 : 0)").replace("N_", cc)),
    ]


DFLAGS = PFLAGS + ["--no-malloc-may-fail", "--object-bits", "12"]
COMP_STUBS = ["comp_enforceBounds", "comp_satisfiesBounds", "samp_sampleUniform", "samp_sampleUniformNear", "samp_sampleGaussian", "weightImportance", "FMULW",
              "comp_interpolate", "comp_weighted_distance", "comp_equalStates"]


def compound_unit(name, entry, enforce, functions, canaries=(), backend="minisat"):
    return dict(name=name, template="spaces/compound.c", entry=entry, sources=compound_sources(), enforce=[enforce], replace=COMP_STUBS, flags=DFLAGS,
                level="proof", functions=functions, canaries=list(canaries), backend=backend, confirm=dict(unwind=5, defines={}))


# ---------------------------------------------------------------- RealVector per-coordinate loops
RV_RULES = [
    (r"const unsigned int dim = space_->getDimension\(\);", "const unsigned int dim = dimension_;", 0),
    (r"const RealVectorBounds &bounds = static_cast<const RealVectorStateSpace \*>\(space_\)->getBounds\(\);", "", 0),
    (r"(?:const )?auto \*(\w+) = static_cast<(?:const )?(?:RealVectorStateSpace::)?StateType \*>\((\w+)\);", r"const RVState *\1 = \2;", 0),
    (r"const StateType \*rstate = static_cast<StateType \*>\(state\);", "const RVState *rstate = state;", 0),
    (r"const double \*(s\d) = static_cast<const StateType \*>\((\w+)\)->values;", r"const double *\1 = \2->values;", 0),
    (r"\bbounds\.(low|high)\[", r"bounds_.\1[", 0),
    (r"rng_\.uniformReal\(", "c_uniformReal(", 0), (r"rng_\.gaussian\(", "c_gaussian(", 0),
    (r"std::max\(", "MAXD(", 0), (r"std::min\(", "MIND(", 0),
    (r"std::numeric_limits<double>::epsilon\(\)", "DBL_EPSILON", 0),
    (r"\(rto->values\[i\] - rfrom->values\[i\]\) \* t", "c_FMUL01((rto->values[i] - rfrom->values[i]), t)", 0),
    (r"\bdiff \* diff\b", "c_FSQ(diff)", 0),
    (r"(?<![\w.])sqrt\(", "c_SQRT(", 0),
]
RV_INV_I = "i <= dimension_ && "


def rv_sources():
    def R(name, sig, loop, cls="RealVectorStateSpace"):
        return dict(name=name, file=RV, sig=sig % cls, rules=RV_RULES, loops={1: loop})
    L = lambda assigns, inv: "\n__CPROVER_assigns(i%s)\n__CPROVER_loop_invariant(i <= %s && %s)\n__CPROVER_decreases(%s - i)\n" % (assigns, "%(n)s", inv, "%(n)s")
    d, dm = dict(n="dimension_"), dict(n="dim")
    return [
        R("rv_enforceBounds", r"void ompl::base::%s::enforceBounds\(State \*state\) const",
          L(", __CPROVER_object_whole(VAL_A)", "VAL_A[G] == (G < i ? (V0 > HI_G ? HI_G : (V0 < LO_G ? LO_G : V0)) : V0)") % d),
        R("rv_satisfiesBounds", r"bool ompl::base::%s::satisfiesBounds\(const State \*state\) const", L("", "(G < i ==> SAT1(V0))") % d),
        R("rv_sampleUniform", r"void ompl::base::%s::sampleUniform\(State \*state\)", L(", __CPROVER_object_whole(VAL_A)", "(G < i ==> (VAL_A[G] >= LO_G && VAL_A[G] <= HI_G))") % dm, "RealVectorStateSampler"),
        R("rv_sampleUniformNear", r"void ompl::base::%s::sampleUniformNear\(State \*state, const State \*near, const double distance\)",
          L(", __CPROVER_object_whole(VAL_A)", "(G < i ==> (VAL_A[G] >= LO_G && VAL_A[G] <= HI_G))") % dm, "RealVectorStateSampler"),
        R("rv_sampleGaussian", r"void ompl::base::%s::sampleGaussian\(State \*state, const State \*mean, const double stdDev\)",
          L(", __CPROVER_object_whole(VAL_A)", "(G < i ==> (VAL_A[G] >= LO_G && VAL_A[G] <= HI_G))") % dm, "RealVectorStateSampler"),
        R("rv_interpolate", r"void ompl::base::%s::interpolate\(const State \*from, const State \*to, const double t,\s*State \*state\) const",
          L(", __CPROVER_object_whole(VAL_C)",
            "(G < i ? ((t == 0.0 ==> rstate->values[G] == V0) && (__CPROVER_loop_entry(VAL_B[G]) >= V0 ? rstate->values[G] >= V0 : rstate->values[G] <= V0)) : (VAL_A[G] == V0 && VAL_B[G] == __CPROVER_loop_entry(VAL_B[G])))") % d),
        R("rv_distance", r"double ompl::base::%s::distance\(const State \*state1, const State \*state2\) const",
          L(", dist, s1, s2", "(dist >= 0.0 || dist != dist) && s1 == VAL_A + i && s2 == VAL_B + i") % d),
        R("rv_equalStates", r"bool ompl::base::%s::equalStates\(const State \*state1, const State \*state2\) const",
          L(", s1, s2", "s1 == VAL_A + i && s2 == VAL_B + i && (G < i ==> ((VAL_A[G] - VAL_B[G]) <= DBL_EPSILON * 2.0 && (VAL_B[G] - VAL_A[G]) <= DBL_EPSILON * 2.0))") % d),
    ]


RV_STUBS = ["c_uniformReal", "c_gaussian", "c_FMUL01", "c_FSQ", "c_SQRT"]


def rv_unit(name, entry, enforce, functions, canaries=(), backend="cadical", timeout=900):
    return dict(name=name, template="spaces/realvector.c", entry=entry, sources=rv_sources(), enforce=[enforce], replace=RV_STUBS, flags=DFLAGS,
                level="proof", bound="dimension <= 64", functions=functions, canaries=list(canaries), backend=backend, timeout=timeout, confirm=dict(unwind=4, defines={"MAXDIM": 3}))


# ---------------------------------------------------------------- WrapperStateSpace forwarders (shared by C06, C07, C08, C09)
WSH = "src/ompl/base/spaces/WrapperStateSpace.h"
W_RULES = [(r"(\w+)->as<StateType>\(\)->getState\(\)", r"UNWRAP(\1)", 0), (r"space_->(\w+)\(", r"W_\1(", 0)]
W_METHODS = [("isMetricSpace", r"bool isMetricSpace\(\) const override"), ("hasSymmetricDistance", r"bool hasSymmetricDistance\(\) const override"), ("hasSymmetricInterpolate", r"bool hasSymmetricInterpolate\(\) const override"),
             ("isCompound", r"bool isCompound\(\) const override"), ("isDiscrete", r"bool isDiscrete\(\) const override"), ("isHybrid", r"bool isHybrid\(\) const override"),
             ("getMaximumExtent", r"double getMaximumExtent\(\) const override"), ("getMeasure", r"double getMeasure\(\) const override"),
             ("getLongestValidSegmentFraction", r"double getLongestValidSegmentFraction\(\) const override"), ("getLongestValidSegmentLength", r"double getLongestValidSegmentLength\(\) const override"),
             ("getValidSegmentCountFactor", r"unsigned int getValidSegmentCountFactor\(\) const override"), ("getDimension", r"unsigned int getDimension\(\) const override"),
             ("getSerializationLength", r"unsigned int getSerializationLength\(\) const override"), ("enforceBounds", r"void enforceBounds\(State \*state\) const override"),
             ("satisfiesBounds", r"bool satisfiesBounds\(const State \*state\) const override"), ("copyState", r"void copyState\(State \*destination, const State \*source\) const override"),
             ("distance", r"double distance\(const State \*state1, const State \*state2\) const override"), ("equalStates", r"bool equalStates\(const State \*state1, const State \*state2\) const override"),
             ("validSegmentCount", r"unsigned int validSegmentCount\(const State \*state1, const State \*state2\) const override"), ("serialize", r"void serialize\(void \*serialization, const State \*state\) const override"),
             ("deserialize", r"void deserialize\(State \*state, const void \*serialization\) const override"), ("interpolate", r"void interpolate\(const State \*from, const State \*to, double t, State \*state\) const override"),
             ("copyToReals", r"void copyToReals\(std::vector<double> &reals, const State \*source\) const override"), ("copyFromReals", r"void copyFromReals\(State \*destination, const std::vector<double> &reals\) const override"),
             ("getValueAddressAtIndex", r"double \*getValueAddressAtIndex\(State \*state, unsigned int index\) const override")]


def wrapper_unit(name):
    return dict(name=name, template="spaces/wrapper_fwd.c", mode="plain", entry="h_forwarders", flags=["--bounds-check", "--pointer-check"], level="proof", backend="minisat", timeout=300,
                functions=["WrapperStateSpace::" + m for m, _ in W_METHODS],
                sources=[dict(name="w_" + m, file=WSH, sig=sg, rules=W_RULES, loops={}) for m, sg in W_METHODS],
                canaries=[dict(name="metric_claim_from_symmetry", where="body:w_isMetricSpace", rx=r"W_isMetricSpace\(\)", repl="W_hasSymmetricDistance()"),
                          dict(name="copy_direction_swapped", where="body:w_copyState", rx=r"UNWRAP\(destination\), UNWRAP\(source\)", repl="UNWRAP(source), UNWRAP(destination)")])
