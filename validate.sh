#!/bin/sh
# validates MANIFEST.json and all evidence files against the schemas (tooling venv has jsonschema)
python3-vt - <<'PY'
import json,jsonschema,glob
jsonschema.validate(json.load(open('/verif/MANIFEST.json')),json.load(open('/root/.vp/MANIFEST.schema.json')))
for f in sorted(glob.glob('/verif/evidence/*.json')):
    jsonschema.validate(json.load(open(f)),json.load(open('/root/.vp/EVIDENCE.schema.json')))
    print('ok',f)
print('manifest ok')
PY
