"""Thin wrappers around goto-cc / goto-instrument / cbmc with timeouts, memory caps and JSON parsing."""
import json
import os
import resource
import shutil
import subprocess
import time

MEM_LIMIT = int(os.environ.get("VERIF_MEM_GB", "10")) * (1 << 30)
VERIF = os.path.dirname(os.path.dirname(os.path.abspath(__file__)))


class ToolError(Exception):
    pass


def _limits(mem):
    def f():
        resource.setrlimit(resource.RLIMIT_AS, (mem, mem))
        os.setsid()
    return f


def run_cmd(cmd, timeout, cwd=None, env=None, mem=None):
    t0 = time.time()
    try:
        p = subprocess.Popen(cmd, stdout=subprocess.PIPE, stderr=subprocess.PIPE, cwd=cwd, env=env,
                             preexec_fn=_limits(mem or MEM_LIMIT), text=True)
        try:
            out, err = p.communicate(timeout=timeout)
        except subprocess.TimeoutExpired:
            try:
                os.killpg(p.pid, 9)
            except OSError:
                pass
            out, err = p.communicate()
            return dict(rc=None, out=out, err=err, timeout=True, secs=time.time() - t0)
        return dict(rc=p.returncode, out=out, err=err, timeout=False, secs=time.time() - t0)
    except OSError as e:
        raise ToolError("cannot run %s: %s" % (cmd[0], e))


def goto_cc(cfile, entry, out, defines=None, extra=None):
    cmd = ["goto-cc", "--function", entry, cfile, "-o", out]
    for k, v in (defines or {}).items():
        cmd.append("-D%s=%s" % (k, v))
    cmd += extra or []
    r = run_cmd(cmd, 120)
    if r["rc"] != 0:
        raise ToolError("goto-cc failed on %s:\n%s\n%s" % (cfile, r["out"][-3000:], r["err"][-3000:]))
    return out


def goto_instrument(inp, out, entry, enforce=(), replace=(), loop_contracts=True, extra=None):
    cmd = ["goto-instrument", "--dfcc", entry]
    for f in enforce:
        cmd += ["--enforce-contract", f]
    for f in replace:
        cmd += ["--replace-call-with-contract", f]
    if loop_contracts:
        cmd += ["--apply-loop-contracts"]
    cmd += extra or []
    cmd += [inp, out]
    r = run_cmd(cmd, 300)
    if r["rc"] != 0:
        raise ToolError("goto-instrument failed:\n%s\n%s" % (r["out"][-4000:], r["err"][-4000:]))
    return out, r["out"] + r["err"]


BACKENDS = {
    "minisat": [],
    "cadical": ["--sat-solver", "cadical"],
    "kissat": ["--external-sat-solver", "kissat"],
    "cvc5": ["--cvc5"],
    "z3": ["--z3"],
    "z3new": ["--z3"],  # with PATH shim
}


def _env_for(backend):
    env = dict(os.environ)
    if backend == "z3new":
        shim = os.path.join(VERIF, "vf", "shim")
        env["PATH"] = shim + ":" + env["PATH"]
    return env


def _parse_json(out):
    try:
        return json.loads(out)
    except Exception:
        # cbmc sometimes is killed mid-output; try to salvage
        raise ToolError("unparsable cbmc json output (%d bytes): %s" % (len(out), out[-500:]))


def list_properties(gb, flags, entry=None):
    cmd = ["cbmc", gb, "--show-properties", "--json-ui"] + list(flags)
    if entry:
        cmd += ["--function", entry]
    r = run_cmd(cmd, 300)
    if r["rc"] not in (0,):
        raise ToolError("cbmc --show-properties failed: %s %s" % (r["out"][-2000:], r["err"][-2000:]))
    js = _parse_json(r["out"])
    props = []
    for m in js:
        if isinstance(m, dict) and "properties" in m:
            for p in m["properties"]:
                props.append(dict(name=p["name"], description=p.get("description", ""), cls=p.get("class", ""),
                                  line=p.get("sourceLocation", {}).get("line"),
                                  function=p.get("sourceLocation", {}).get("function")))
    return props


RES_RX = None


def run_cbmc(gb, flags, backend="minisat", props=None, timeout=300, trace=False, entry=None, mem=None):
    """Plain-text UI (the JSON UI embeds full traces: 250 MB for one small unit).
    Returns dict(status='ok'|'timeout'|'error', results={name: (status, description)}, secs, log, traces)"""
    import re
    cmd = ["cbmc", gb] + list(flags) + BACKENDS[backend]
    if entry:
        cmd += ["--function", entry]
    if trace:
        cmd += ["--trace"]
    for p in props or []:
        cmd += ["--property", p]
    r = run_cmd(cmd, timeout, env=_env_for(backend), mem=mem)
    res = dict(cmd=" ".join(cmd), secs=r["secs"], results={}, traces={}, log="", status="ok", warnings=[])
    out = r["out"] or ""
    if r["timeout"]:
        res["status"] = "timeout"
        res["log"] = out[-1500:]
        return res
    rx = re.compile(r"^\[([^\]]+)\] (?:line \d+ )?(.*): (SUCCESS|FAILURE|UNKNOWN|ERROR)$")
    cur = None
    for line in out.split("\n"):
        m = rx.match(line)
        if m:
            res["results"][m.group(1)] = (m.group(3), m.group(2))
            continue
        if line.startswith("Trace for "):
            cur = line[len("Trace for "):].rstrip(":").strip()
            res["traces"][cur] = []
            continue
        if cur is not None:
            if line.startswith("State "):
                mm = re.match(r"State \d+ file (\S+) function (\S+) line (\d+)", line)
                res["traces"][cur].append(dict(stepType="loc", function=mm.group(2) if mm else "?", line=int(mm.group(3)) if mm else 0))
            elif line.startswith("  ") and "=" in line and not line.startswith("  __dfcc") and not line.startswith("  __CPROVER"):
                lhs, _, rhs = line.strip().partition("=")
                loc = res["traces"][cur][-1] if res["traces"][cur] and res["traces"][cur][-1].get("stepType") == "loc" else {}
                val, _, binary = rhs.partition(" (")
                res["traces"][cur].append(dict(stepType="assignment", lhs=lhs, value=dict(data=val, binary=binary.rstrip(")")),
                                               sourceLocation=dict(function=loc.get("function"), line=loc.get("line"))))
            elif line.startswith("Violated property:"):
                res["traces"][cur].append(dict(stepType="failure", property=cur, reason=""))
            elif line.startswith("** "):
                cur = None
        if "ignoring" in line or "warning:" in line.lower():
            res["warnings"].append(line.strip())
    for k in list(res["traces"]):
        res["traces"][k] = [st for st in res["traces"][k] if st.get("stepType") != "loc"]
    tail = out[-1500:]
    res["log"] = tail
    if "VERIFICATION SUCCESSFUL" not in out and "VERIFICATION FAILED" not in out:
        res["status"] = "error"
        res["log"] = tail + "\n(rc=%s) stderr: %s" % (r["rc"], (r["err"] or "")[-1500:])
    return res


def have_tools():
    missing = [t for t in ("cbmc", "goto-cc", "goto-instrument", "kissat", "cvc5", "g++") if not shutil.which(t)]
    return missing
