"""Mechanical extraction of C++ function bodies from /repo into C text (DESIGN.md section 3).

Nothing here knows about a particular unit: a unit names a file, a signature regex, an ordered
rewrite table whose rules must fire at least `min` times, and loop-contract clauses keyed by loop
ordinal.  Any failure raises ExtractionError, which the runner reports as exit 2 ("extraction
drift"), never as a VIOLATION.
"""
import hashlib
import os
import re

REPO = os.environ.get("VERIF_REPO", "/repo")


class ExtractionError(Exception):
    pass


def strip_comments(s):
    """Remove // and /* */ comments, keep string/char literals and line structure."""
    out = []
    i, n = 0, len(s)
    while i < n:
        c = s[i]
        if c == '"' or c == "'":
            q = c
            j = i + 1
            while j < n and s[j] != q:
                if s[j] == "\\":
                    j += 1
                j += 1
            out.append(s[i:j + 1])
            i = j + 1
        elif s.startswith("//", i):
            j = s.find("\n", i)
            if j < 0:
                j = n
            i = j
        elif s.startswith("/*", i):
            j = s.find("*/", i + 2)
            if j < 0:
                raise ExtractionError("unterminated comment")
            out.append("\n" * s.count("\n", i, j + 2))
            i = j + 2
        else:
            out.append(c)
            i += 1
    return "".join(out)


def _match(s, i, open_c, close_c):
    """s[i] == open_c; return index of the matching close_c (string-aware)."""
    assert s[i] == open_c, (s[i - 10:i + 10], open_c)
    d = 0
    n = len(s)
    j = i
    while j < n:
        c = s[j]
        if c == '"' or c == "'":
            q = c
            j += 1
            while j < n and s[j] != q:
                if s[j] == "\\":
                    j += 1
                j += 1
        elif c == open_c:
            d += 1
        elif c == close_c:
            d -= 1
            if d == 0:
                return j
        j += 1
    raise ExtractionError("unbalanced %s%s" % (open_c, close_c))


_cache = {}


def read_source(relpath):
    path = os.path.join(REPO, relpath)
    key = path
    try:
        st = os.stat(path)
    except OSError as e:
        raise ExtractionError("source file missing: %s (%s)" % (relpath, e))
    ent = _cache.get(key)
    if ent and ent[0] == st.st_mtime_ns:
        return ent[1]
    with open(path, encoding="utf-8", errors="replace") as f:
        txt = strip_comments(f.read())
    _cache[key] = (st.st_mtime_ns, txt)
    return txt


def find_body(relpath, sig, which=None):
    """Return the text '{...}' of the unique definition whose header matches regex `sig`.

    `sig` must match up to (not including) the opening brace; a constructor initialiser list
    between signature and brace is skipped.  `which`: if the signature legitimately matches
    several definitions (overloads told apart only by body), pick the which-th (0-based).
    """
    s = read_source(relpath)
    ms = [m for m in re.finditer(sig, s)]
    # keep only matches followed (after optional const/override/noexcept/init-list) by '{'
    defs = []
    for m in ms:
        j = m.end()
        k = j
        # skip qualifiers and ctor init list up to the first '{' or ';'
        while k < len(s) and s[k] not in "{;":
            if s[k] == "(":
                k = _match(s, k, "(", ")")
            k += 1
        if k < len(s) and s[k] == "{":
            defs.append((m, k))
    if which is not None:
        if which >= len(defs):
            raise ExtractionError("signature %r: wanted match #%d, found %d in %s" % (sig, which, len(defs), relpath))
        defs = [defs[which]]
    if len(defs) != 1:
        raise ExtractionError("signature %r matched %d definitions in %s (need exactly 1)" % (sig, len(defs), relpath))
    m, k = defs[0]
    e = _match(s, k, "{", "}")
    return s[k:e + 1], s[m.start():k]


def find_region(relpath, begin_rx, end_rx, end_inclusive=False):
    """Text between the unique match of begin_rx (inclusive) and the first later match of end_rx (exclusive, or inclusive on request)."""
    s = read_source(relpath)
    ms = list(re.finditer(begin_rx, s))
    if len(ms) != 1:
        raise ExtractionError("region begin %r matched %d times in %s" % (begin_rx, len(ms), relpath))
    m2 = re.compile(end_rx).search(s, ms[0].end())
    if not m2:
        raise ExtractionError("region end %r not found in %s" % (end_rx, relpath))
    return s[ms[0].start():(m2.end() if end_inclusive else m2.start())]


LOOP_KW = re.compile(r"\b(for|while|do)\b")


def _loop_sites(body):
    """Yield (ordinal, insert_position) for each loop in token order.

    for/while: the contract goes right after the header's closing parenthesis.
    do-while : right after the 'do' keyword (CBMC's grammar; the invariant is evaluated at the top of the body); the
               trailing while(...) is not counted as a loop of its own.
    """
    sites = []
    skip_while_at = set()
    i = 0
    n = len(body)
    # mask strings
    masked = re.sub(r'"(?:\\.|[^"\\])*"|\'(?:\\.|[^\'\\])*\'', lambda m: " " * len(m.group(0)), body)
    for m in LOOP_KW.finditer(masked):
        kw = m.group(1)
        if m.start() in skip_while_at:
            continue
        if kw in ("for", "while"):
            j = m.end()
            while j < n and masked[j].isspace():
                j += 1
            if j >= n or masked[j] != "(":
                raise ExtractionError("loop keyword without header at %d" % m.start())
            e = _match(masked, j, "(", ")")
            sites.append(e + 1)
        else:  # do
            j = m.end()
            while j < n and masked[j].isspace():
                j += 1
            if masked[j] != "{":
                raise ExtractionError("do without block")
            e = _match(masked, j, "{", "}")
            m2 = re.compile(r"\s*while\b").match(masked, e + 1)
            if not m2:
                raise ExtractionError("do without while")
            w = m2.end() - len("while")
            skip_while_at.add(w)
            j = m2.end()
            while masked[j].isspace():
                j += 1
            _match(masked, j, "(", ")")
            sites.append(m.end())      # CBMC wants a do-while's contract right after the 'do' keyword
    return sites


def count_loops(body):
    return len(_loop_sites(body))


def insert_loop_contracts(body, loops):
    """loops: {ordinal(1-based): 'clauses text'}; every loop in the body must be given a contract
    unless loops has key 'allow_uncontracted' (bounded units)."""
    sites = _loop_sites(body)
    allow = loops.get("allow_uncontracted", False)
    want = {k: v for k, v in loops.items() if isinstance(k, int)}
    for k in want:
        if k < 1 or k > len(sites):
            raise ExtractionError("loop contract for loop %d but body has %d loops" % (k, len(sites)))
    if not allow:
        for k in range(1, len(sites) + 1):
            if k not in want:
                raise ExtractionError("loop %d of %d has no contract (body changed shape?)" % (k, len(sites)))
    out = body
    for k in sorted(want, reverse=True):
        p = sites[k - 1]
        out = out[:p] + "\n" + want[k].strip() + "\n" + out[p:]
    return out


DENY = [
    (r"::", "scope operator"),
    (r"\bauto\b", "auto"),
    (r"\bnew\b", "new"),
    (r"\bdelete\b", "delete"),
    (r"\bthrow\b", "throw"),
    (r"\btemplate\b", "template"),
    (r"\bstatic_cast\b|\bdynamic_cast\b|\breinterpret_cast\b|\bconst_cast\b", "C++ cast"),
    (r"->\s*as\s*<", "as<>"),
    (r"\[\s*[&=]?\s*\]\s*\(", "lambda"),
    (r"\bnullptr\b", "nullptr"),
    (r"\bstd\b", "std"),
    (r"\btry\b|\bcatch\b", "try/catch"),
    (r"\bOMPL_(WARN|INFORM|DEBUG|ERROR)\b", "logging"),
]


def apply_rules(text, rules, unit_name="?"):
    """rules: list of (regex, replacement, min_count[, flags]).  Returns (text, fired)."""
    fired = []
    for r in rules:
        if callable(r[0]):          # whole-text transformer (e.g. C++ reference locals -> pointers)
            text = r[0](text)
            fired.append((getattr(r[0], "__name__", "callable"), 1))
            continue
        rx, rp, mn = r[0], r[1], r[2]
        fl = r[3] if len(r) > 3 else 0
        text, n = re.subn(rx, rp, text, flags=fl)
        fired.append((rx, n))
        if n < mn:
            raise ExtractionError("%s: rewrite rule %r fired %d times, needs >= %d (source drifted)" % (unit_name, rx, n, mn))
    return text, fired


def check_deny(text, unit_name, allow=()):
    masked = re.sub(r'"(?:\\.|[^"\\])*"', '""', text)
    for rx, what in DENY:
        if what in allow:
            continue
        m = re.search(rx, masked)
        if m:
            ctx = masked[max(0, m.start() - 40):m.end() + 40].replace("\n", " ")
            raise ExtractionError("%s: leftover C++ token (%s) after rewriting: ...%s..." % (unit_name, what, ctx))


def cxx_refs_to_pointers(text):
    """'T &name = lvalue;' -> 'T *name_ = &(lvalue);' and every later use of name inside the enclosing block -> (*name_)."""
    rx = re.compile(r"\b(double|int|unsigned int|bool|float) &(\w+) = ([^;]+);")
    while True:
        m = rx.search(text)
        if not m:
            return text
        name = m.group(2)
        decl = "%s *%s_ = &(%s);" % (m.group(1), name, m.group(3))
        # end of the enclosing block
        d, j = 0, m.end()
        while j < len(text):
            if text[j] == "{":
                d += 1
            elif text[j] == "}":
                if d == 0:
                    break
                d -= 1
            j += 1
        # not a member access (p->name, s.name): the local reference may carry the name of the member it binds to
        scope = re.sub(r"(?<![\w.>])%s\b" % re.escape(name), "(*%s_)" % name, text[m.end():j])
        text = text[:m.start()] + decl + scope + text[j:]


# rules shared by many units
COMMON_RULES = [
    # generic C++ casts on primitive types and 'auto' initialised by such a cast
    (r"reinterpret_cast<([^<>]+)>\(", r"(\1)(", 0),
    (r"static_cast<((?:const )?(?:unsigned )?(?:int|long|double|float|char|bool|size_t|unsigned|std::size_t)(?: \*)?)>\(", r"(\1)(", 0),
    (r"(?:const )?auto \*(\w+) = \(((?:const )?\w+ \*)\)\(", r"\2\1 = (\2)(", 0),
    (r"(?:const )?auto (\w+) = \(((?:unsigned )?(?:int|long|double|float|char|bool|size_t))\)\(", r"\2 \1 = (\2)(", 0),
    (r"\bOMPL_(?:WARN|INFORM|DEBUG|ERROR)\s*\((?:[^()]|\((?:[^()]|\([^()]*\))*\))*\)\s*;", ";", 0),
    (r"\bnullptr\b", "NULL", 0),
]


def sha(text):
    return hashlib.sha256(text.encode()).hexdigest()[:16]


def extract_source(src, unit_name="?"):
    """src: dict(name, file, sig | (begin,end), rules, loops, which, allow_deny, keep_braces)
    returns dict(name, text, orig_sha, emitted_sha, fired, header)"""
    if "sig" in src:
        body, header = find_body(src["file"], src["sig"], src.get("which"))
    else:
        body = find_region(src["file"], src["begin"], src["end"], src.get("end_inclusive", False))
        header = ""
        if src.get("wrap_braces", True):
            body = "{\n" + body + "\n}"
    orig = body
    rules = list(src.get("rules", [])) + ([] if src.get("no_common") else COMMON_RULES)
    text, fired = apply_rules(body, rules, unit_name + ":" + src["name"])
    check_deny(text, unit_name + ":" + src["name"], src.get("allow_deny", ()))
    loops = src.get("loops", {})
    text = insert_loop_contracts(text, loops)
    return dict(name=src["name"], text=text, orig_sha=sha(orig), emitted_sha=sha(text), fired=fired, header=header,
                orig=orig, file=src["file"], nloops=count_loops(orig))


def render(template_text, extracted):
    """Replace /*@BODY name@*/ markers."""
    out = template_text
    for ex in extracted:
        marker = "/*@BODY %s@*/" % ex["name"]
        if marker not in out:
            raise ExtractionError("template has no marker %s" % marker)
        out = out.replace(marker, ex["text"])
    left = re.findall(r"/\*@BODY \w+@\*/", out)
    if left:
        raise ExtractionError("unfilled markers: %s" % left)
    return out
