"""Native replay / oracle drivers: compiled on every run against /repo's working tree.

Header-only units need only -I/repo/src.  For .cpp units the driver compiles the unit's own .cpp
from the working tree and links that object ahead of the pre-built libompl.so, so the freshly
compiled definitions pre-empt the library's for exactly the functions under test."""
import hashlib
import os
import subprocess
import threading

from . import cbmc as C

REPO = os.environ.get("VERIF_REPO", "/repo")
BUILD = os.path.join(REPO, "_build")
LIBDIR = os.path.join(BUILD, "src", "ompl")
CXXFLAGS = ["-std=c++17", "-O1", "-g0", "-w", "-DNDEBUG", "-I" + os.path.join(REPO, "src"), "-I" + os.path.join(BUILD, "src"),
            "-isystem", "/usr/include/eigen3", "-DBOOST_MATH_NO_LONG_DOUBLE_MATH_FUNCTIONS"]
_lock = threading.Lock()
_built = {}


def run_env():
    env = dict(os.environ)
    env["LD_LIBRARY_PATH"] = LIBDIR + ":" + env.get("LD_LIBRARY_PATH", "")
    return env


def build_driver(driver_rel, scratch, link_ompl=False, unit_cpps=(), extra=()):
    src = os.path.join(C.VERIF, driver_rel)
    key = (driver_rel, link_ompl, tuple(unit_cpps), tuple(extra))
    with _lock:
        if key in _built and os.path.exists(_built[key]):
            return _built[key]
    out = os.path.join(scratch, "native_" + hashlib.sha256(repr(key).encode()).hexdigest()[:10])
    cmd = ["g++"] + CXXFLAGS + list(extra) + [src]
    for c in unit_cpps:
        cmd.append(os.path.join(REPO, c))
    cmd += ["-o", out]
    if link_ompl:
        if not os.path.exists(os.path.join(LIBDIR, "libompl.so")):
            raise C.ToolError("libompl.so missing: run setup (cmake --build /repo/_build --target ompl)")
        cmd += ["-L" + LIBDIR, "-lompl", "-Wl,-rpath," + LIBDIR, "-lboost_serialization", "-lboost_filesystem", "-lboost_system", "-lpthread"]
    r = C.run_cmd(cmd, 900)
    if r["rc"] != 0:
        raise C.ToolError("native driver build failed (%s):\n%s" % (driver_rel, (r["err"] or r["out"])[-3000:]))
    with _lock:
        _built[key] = out
    return out
