"""Property-level driver: run all units of a property, replay failures natively, honour
known_findings.jsonl, write evidence/<id>.json, print VIOLATION / KNOWN-FINDING lines."""
import concurrent.futures as cf
import hashlib
import importlib.util
import json
import os
import shutil
import sys
import time

from . import cbmc as C
from . import native as N
from . import runner as R

VERIF = C.VERIF


def load_prop(pid):
    path = os.path.join(VERIF, "units", pid + ".py")
    spec = importlib.util.spec_from_file_location("units_" + pid, path)
    mod = importlib.util.module_from_spec(spec)
    spec.loader.exec_module(mod)
    return mod


def load_known():
    """known_findings.txt: 'fixed: property=<id> <commit> <what>' (informational, suppresses nothing) and
    'open: {json}' lines."""
    out = []
    p = os.path.join(VERIF, "known_findings.txt")
    if os.path.exists(p):
        for line in open(p):
            line = line.strip()
            if line.startswith("open:"):
                k = json.loads(line[5:].strip())
                k["status"] = "open"
                out.append(k)
            elif line.startswith("fixed:"):
                import re
                m = re.match(r"fixed:\s+property=(\S+)\s+(\S+)\s+(.*)", line)
                if m:
                    out.append(dict(status="fixed", property=m.group(1), commit=m.group(2), what=m.group(3)))
    return out


def scratch_dir():
    base = os.environ.get("VERIF_SCRATCH") or "/var/tmp/ompl-verif.%d" % os.getpid()
    os.makedirs(base, exist_ok=True)
    return base


def write_replay(pid, ur, extra):
    d = os.path.join(VERIF, "replays", pid)
    os.makedirs(d, exist_ok=True)
    payload = dict(property=pid, unit=ur.name, reason=ur.reason,
                   failed_obligations=[dict(obligation=n, description=dsc, auxiliary=a) for n, dsc, a in ur.failed],
                   bodies=ur.bodies, cbmc_cmds=ur.cmds, confirmation=ur.confirm)
    payload.update(extra)
    h = hashlib.sha256(json.dumps(payload, sort_keys=True, default=str).encode()).hexdigest()[:10]
    path = os.path.join(d, "%s-%s.json" % (ur.name, h))
    with open(path, "w") as f:
        json.dump(payload, f, indent=1, default=str)
    return path


def main_check(pid, tier, seed):
    t0 = time.time()
    mod = load_prop(pid)
    scratch = scratch_dir()
    known = [k for k in load_known() if k["property"] == pid]
    open_k = [k for k in known if k.get("status") == "open"]
    units = [u for u in mod.UNITS if tier in u.get("in_tiers", ("quick", "thorough"))]
    only = os.environ.get("VERIF_ONLY")   # development aid: no evidence is written
    if only:
        units = [u for u in units if only in u["name"]]
    # open known findings exclude their zone by a define on the unit
    for k in open_k:
        for u in units:
            if u["name"] == k.get("unit") and k.get("define"):
                u.setdefault("defines", {})[k["define"]] = 1
    results = []
    rc = 0
    lines = []
    try:
        with cf.ThreadPoolExecutor(max_workers=max(1, min(len(units), R.NCPU))) as ex:
            futs = [ex.submit(R.run_unit, u, tier, scratch) for u in units]
            # native checks (known-finding witnesses, fidelity, native oracles) in parallel with cbmc
            nat_fut = ex.submit(_native_checks, mod, tier, seed, scratch, open_k if not only or only == "native" else None)
            for f in futs:
                results.append(f.result())
            nat = nat_fut.result()
        # ---------- report ----------
        violations = 0
        for ur in results:
            if ur.status == "violation":
                extra = {}
                found = None
                rp = getattr(mod, "replay", None)
                if rp:
                    try:
                        found = rp(ur, scratch, seed)
                    except Exception as e:
                        found = dict(found=False, error=str(e)[-500:])
                if found:
                    extra["native_replay"] = found
                tr = {}
                for n, t in (ur.traces or {}).items():
                    if t:
                        tr[n] = R.trace_excerpt(t)
                extra["cbmc_trace_excerpt"] = tr
                extra["verifier_output"] = ur.reason
                path = write_replay(pid, ur, extra)
                suffix = "" if (found and found.get("found")) else " no-failing-input-found"
                lines.append("VIOLATION property=%s replay=%s unit=%s obligation=%s%s" % (
                    pid, path, ur.name, (ur.failed[0][0] if ur.failed else "?"), suffix))
                # keep VIOLATION line format strict: the suffix words must end the line
                lines[-1] = "VIOLATION property=%s replay=%s%s" % (pid, path, suffix)
                print("  unit=%s %s" % (ur.name, ur.reason))
                violations += 1
                rc = max(rc, 1)
            elif ur.status in ("undecided", "error"):
                print("UNDECIDED unit=%s: %s" % (ur.name, ur.reason))
                if rc == 0:
                    rc = 2
        for nv in nat["violations"]:
            path = write_replay_native(pid, nv)
            lines.append("VIOLATION property=%s replay=%s" % (pid, path))
            violations += 1
            rc = 1
        for e in nat["errors"]:
            print("UNDECIDED native: %s" % e)
            if rc == 0:
                rc = 2
        for kf in nat["known"]:
            print("KNOWN-FINDING: property=%s %s" % (pid, kf))
        for l in lines:
            print(l)
        if not only and not os.environ.get("VERIF_NO_EVIDENCE"):
            write_evidence(pid, mod, tier, seed, results, nat, time.time() - t0, violations, known)
        _summary(pid, results, nat, time.time() - t0, rc)
    finally:
        if not os.environ.get("VERIF_KEEP"):
            shutil.rmtree(scratch, ignore_errors=True)
    return rc


def write_replay_native(pid, nv):
    d = os.path.join(VERIF, "replays", pid)
    os.makedirs(d, exist_ok=True)
    h = hashlib.sha256(json.dumps(nv, sort_keys=True, default=str).encode()).hexdigest()[:10]
    path = os.path.join(d, "native-%s-%s.json" % (nv.get("name", "x"), h))
    with open(path, "w") as f:
        json.dump(nv, f, indent=1, default=str)
    return path


def _native_checks(mod, tier, seed, scratch, open_k):
    """mod.NATIVE: list of dict(name, driver, args(tier,seed)->list, link_ompl, known_id?)
    driver exit 0 = held, 1 = violated (stdout explains), else error."""
    out = dict(violations=[], errors=[], known=[], runs=[])
    if open_k is None:
        return out
    for nc in getattr(mod, "NATIVE", []):
        if tier not in nc.get("in_tiers", ("quick", "thorough")):
            continue
        try:
            exe = N.build_driver(nc["driver"], scratch, link_ompl=nc.get("link_ompl", False),
                                 unit_cpps=nc.get("unit_cpps", []), extra=nc.get("extra", ()))
            args = nc["args"](tier, seed) if callable(nc.get("args")) else nc.get("args", [])
            r = C.run_cmd([exe] + [str(a) for a in args], nc.get("timeout", 600), env=N.run_env())
            out["runs"].append(dict(name=nc["name"], rc=r["rc"], secs=round(r["secs"], 2), tail=r["out"][-600:]))
            kid = nc.get("known_id")
            if kid:
                k = [x for x in open_k if x.get("id") == kid]
                if k and r["rc"] == 1:
                    out["known"].append("%s [%s]" % (k[0]["what"], kid))
                elif k and r["rc"] == 0:
                    # witness no longer fails: finding disappeared; not an error, just say so
                    print("note: known finding %s no longer reproduces" % kid)
                elif r["rc"] == 1:
                    out["violations"].append(dict(name=nc["name"], driver=nc["driver"], args=args, output=r["out"][-3000:],
                                                  link_ompl=nc.get("link_ompl", False), unit_cpps=nc.get("unit_cpps", []),
                                                  replay_cmd="%s %s" % (nc["driver"], " ".join(map(str, args)))))
                elif r["rc"] != 0:
                    out["errors"].append("%s: rc=%s %s" % (nc["name"], r["rc"], (r["out"] + r["err"])[-500:]))
                continue
            if r["rc"] == 1:
                out["violations"].append(dict(name=nc["name"], driver=nc["driver"], args=args, output=r["out"][-3000:],
                                                  link_ompl=nc.get("link_ompl", False), unit_cpps=nc.get("unit_cpps", []),
                                              replay_cmd="%s %s" % (nc["driver"], " ".join(map(str, args)))))
            elif r["rc"] != 0:
                out["errors"].append("%s: rc=%s timeout=%s %s" % (nc["name"], r["rc"], r["timeout"], (r["out"] + r["err"])[-500:]))
        except Exception as e:
            out["errors"].append("%s: %s" % (nc["name"], str(e)[-800:]))
    return out


def write_evidence(pid, mod, tier, seed, results, nat, wall, violations, known):
    obligations = sum(r.obligations for r in results)
    discharged = sum(r.discharged for r in results)
    proof_units = [r for r in results if r.level == "proof"]
    bounded_units = [r for r in results if r.level != "proof"]
    level = getattr(mod, "LEVEL", "proof")
    samples = []
    for r in results:
        for s in r.samples[:4]:
            samples.append("%s :: %s" % (r.name, s))
    cov = dict(
        obligations=obligations, discharged=discharged,
        checker_cmd=(results[0].cmds[0] if results and results[0].cmds else
                     "goto-cc --function harness U.c; goto-instrument --dfcc harness --enforce-contract F "
                     "--replace-call-with-contract G --apply-loop-contracts; cbmc --json-ui"),
        trusted_base=list(getattr(mod, "TRUSTED", [])),
        units=[r.to_json() for r in results],
        proof_units=[r.name for r in proof_units],
        bounded_units=[dict(unit=r.name, bound=r.bound) for r in bounded_units],
        obligations_proof_units=sum(r.obligations for r in proof_units),
        discharged_proof_units=sum(r.discharged for r in proof_units),
        obligations_bounded_units=sum(r.obligations for r in bounded_units),
        canaries_killed=sum(1 for r in results for c in r.canaries if c[1]),
        canaries_total=sum(len(r.canaries) for r in results),
        reach_goals_hit=sum(r.reach_hit for r in results),
        reach_goals=sum(r.reach_total for r in results),
        cbmc_runs=sum(r.runs for r in results),
        evaluations=sum(r.runs for r in results),
        distinct_nontrivial=sum(1 for r in results if r.status == "ok" and r.obligations > 0 and
                                r.reach_hit == r.reach_total and all(c[1] for c in r.canaries)),
        rule="one evaluation = one cbmc process (unit x property group x size); a unit counts as non-trivial when it "
             "generated >0 obligations, all its reachability goals were reached and all its canaries were killed",
        samples=samples[:40] or ["(no obligations)"],
        solver_seconds=round(sum(r.solver_secs for r in results), 1),
        native_runs=nat["runs"],
        not_covered=list(getattr(mod, "NOT_COVERED", [])),
        functions_under_contract=sorted({f for r in results for f in r.unit.get("functions", [])}),
        known_findings=[k for k in known],
        unit_status={r.name: r.status for r in results},
    )
    ev = dict(property_id=pid, tier=tier, seed=seed, level=level, coverage=cov,
              assumptions=list(getattr(mod, "ASSUMPTIONS", [])), wall_s=round(wall, 2), violations=violations)
    os.makedirs(os.path.join(VERIF, "evidence"), exist_ok=True)
    with open(os.path.join(VERIF, "evidence", pid + ".json"), "w") as f:
        json.dump(ev, f, indent=1, default=str)


def _summary(pid, results, nat, wall, rc):
    for r in results:
        print("  %-44s %-10s obl %4d/%-4d reach %d/%d canaries %d/%d %6.1fs %s" % (
            r.name, r.status, r.discharged, r.obligations, r.reach_hit, r.reach_total,
            sum(1 for c in r.canaries if c[1]), len(r.canaries), r.secs, r.level if r.level == "proof" else "bounded:" + r.bound))
    for n in nat["runs"]:
        print("  native %-37s rc=%s %6.1fs" % (n["name"], n["rc"], n["secs"]))
    print("%s: exit %d, %.1fs" % (pid, rc, wall))
