"""./check --replay <file>: re-run the native driver recorded in a replay file against /repo's current tree."""
import json
import os
import shutil

from . import cbmc as C
from . import native as N


def run(path):
    j = json.load(open(path))
    print("property=%s unit=%s" % (j.get("property"), j.get("unit", j.get("name"))))
    for o in j.get("failed_obligations", []):
        print("  failed obligation: %s -- %s" % (o["obligation"], o["description"]))
    nr = j.get("native_replay") or (j if j.get("driver") else None)
    if not nr or not nr.get("driver"):
        print("no native replay recorded (no-failing-input-found); verifier output:\n%s" % j.get("verifier_output", ""))
        return 2
    scratch = "/var/tmp/ompl-verif-replay.%d" % os.getpid()
    os.makedirs(scratch, exist_ok=True)
    try:
        exe = N.build_driver(nr["driver"], scratch, link_ompl=nr.get("link_ompl", False), unit_cpps=nr.get("unit_cpps", []))
        r = C.run_cmd([exe] + [str(a) for a in nr.get("args", [])], 900, env=N.run_env())
        print(r["out"][-3000:])
        print("native replay exit code %s (1 = property violated on the real code)" % r["rc"])
        return 1 if r["rc"] == 1 else (0 if r["rc"] == 0 else 2)
    finally:
        shutil.rmtree(scratch, ignore_errors=True)
