"""Runs the units of one property: extraction -> C -> goto-cc -> DFCC instrumentation -> cbmc,
canaries, vacuity guards, classification of failed obligations, confirmation runs, native
replay, evidence (DESIGN.md sections 4.7, 4.9, 4.10)."""
import concurrent.futures as cf
import copy
import json
import os
import re
import shutil
import sys
import threading
import time
import traceback

from . import cbmc as C
from . import extract as X

VERIF = C.VERIF
NCPU = int(os.environ.get("VERIF_JOBS", str(os.cpu_count() or 4)))
_slots = threading.Semaphore(NCPU)
_confirm_lock = threading.Lock()

DEFAULT_FLAGS = ["--bounds-check", "--pointer-check", "--signed-overflow-check", "--conversion-check",
                 "--div-by-zero-check", "--no-malloc-may-fail", "--object-bits", "12"]

AUX_RX = re.compile(r"loop_invariant_base|loop_invariant_step|loop_decreases|decreases|loop_assigns|loop_step_unwinding|"
                    r"\.assigns\.|unwind", re.I)


def is_aux(name, desc):
    if re.search(r"\.assigns\.\d+$", name) or "is assignable" in desc:
        return True
    if re.search(r"loop invariant|decreases clause|loop_invariant|step case|base case|unwinding assertion", desc, re.I):
        return True
    if AUX_RX.search(name):
        return True
    return False


def is_reach(desc):
    return desc.strip().startswith("REACH")


class UnitResult:
    def __init__(self, unit):
        self.unit = unit
        self.name = unit["name"]
        self.status = "ok"          # ok | violation | undecided | error
        self.reason = ""
        self.obligations = 0
        self.discharged = 0
        self.reach_total = 0
        self.reach_hit = 0
        self.failed = []            # [(name, desc, aux?)]
        self.secs = 0.0
        self.solver_secs = 0.0
        self.backend = unit.get("backend", "minisat")
        self.bodies = []
        self.canaries = []          # [(name, killed?, detail)]
        self.loop_obligations = 0
        self.cmds = []
        self.samples = []
        self.traces = {}
        self.confirm = None
        self.level = unit.get("level", "proof")
        self.bound = unit.get("bound", "")
        self.runs = 0
        self.log = ""

    def to_json(self):
        return dict(unit=self.name, status=self.status, reason=self.reason, level=self.level, bound=self.bound,
                    obligations=self.obligations, discharged=self.discharged, reach_goals=self.reach_total,
                    reach_hit=self.reach_hit, loop_contract_obligations=self.loop_obligations,
                    failed=[dict(obligation=n, description=d, auxiliary=a) for n, d, a in self.failed],
                    wall_s=round(self.secs, 2), solver_s=round(self.solver_secs, 2), backend=self.backend,
                    bodies=self.bodies, canaries=[dict(name=n, killed=k, detail=d) for n, k, d in self.canaries],
                    cbmc_runs=self.runs, functions=self.unit.get("functions", []))


def _tier_unit(unit, tier):
    u = copy.deepcopy(unit)
    ov = u.get("tiers", {}).get(tier, {})
    for k, v in ov.items():
        if k == "defines":
            u.setdefault("defines", {}).update(v)
        else:
            u[k] = v
    return u


def generate_c(unit, workdir, mutate=None):
    """Extract + render.  mutate: optional (where, rx, repl, count) applied for canaries.
    where = 'body:<name>' (on extracted, rewritten body), 'orig:<name>' (on the original C++ body text
    before rewriting) or 'c' (whole generated file)."""
    tpath = os.path.join(VERIF, "units", unit["template"])
    with open(tpath) as f:
        tmpl = f.read()
    exs = []
    for src in unit.get("sources", []):
        src2 = src
        if mutate and mutate[0] == "orig:" + src["name"]:
            src2 = dict(src)
            src2["_mutate_orig"] = mutate
        try:
            ex = _extract(src2, unit["name"])
        except X.ExtractionError:
            # a unit that shares a source list with others names the bodies its entry really uses ("needs"); a body it does not
            # use and that no longer extracts (e.g. it was rewritten) is replaced by an unreachable stub instead of failing the unit
            if "needs" in unit and src["name"] not in unit["needs"]:
                ex = dict(name=src["name"], text="{ __CPROVER_assume(0); }", orig_sha="-", emitted_sha="-", fired=[], header="", orig="", file=src["file"], nloops=0)
            else:
                raise
        if mutate and mutate[0] == "body:" + src["name"]:
            ex = dict(ex)
            new, n = re.subn(mutate[1], mutate[2], ex["text"], count=mutate[3] if len(mutate) > 3 else 0, flags=re.S)
            if n == 0:
                raise X.ExtractionError("canary pattern %r did not match body of %s" % (mutate[1], src["name"]))
            ex["text"] = new
        exs.append(ex)
    text = X.render(tmpl, exs)
    if mutate and mutate[0] == "c":
        text, n = re.subn(mutate[1], mutate[2], text, count=mutate[3] if len(mutate) > 3 else 0, flags=re.S)
        if n == 0:
            raise X.ExtractionError("canary pattern %r did not match generated C" % (mutate[1],))
    os.makedirs(workdir, exist_ok=True)
    cfile = os.path.join(workdir, unit["name"] + ".c")
    with open(cfile, "w") as f:
        f.write(text)
    return cfile, exs


def _extract(src, uname):
    if "_mutate_orig" in src:
        m = src["_mutate_orig"]
        # mutate the original text: wrap find_body
        s = dict(src)
        del s["_mutate_orig"]
        real_find_body = X.find_body

        def fb(relpath, sig, which=None):
            body, header = real_find_body(relpath, sig, which)
            new, n = re.subn(m[1], m[2], body, count=m[3] if len(m) > 3 else 0, flags=re.S)
            if n == 0:
                raise X.ExtractionError("canary pattern %r did not match original body of %s" % (m[1], src["name"]))
            return new, header
        X.find_body = fb
        try:
            return X.extract_source(s, uname)
        finally:
            X.find_body = real_find_body
    return X.extract_source(src, uname)


def build(unit, cfile, workdir, loop_contracts=None, tag="b"):
    entry = unit.get("entry", "harness")
    a = os.path.join(workdir, tag + "_a.gb")
    inc = ["-I" + os.path.join(VERIF, "units", os.path.dirname(unit["template"])), "-I" + os.path.join(VERIF, "units", "common")]
    mode = unit.get("mode", "dfcc")
    for attempt in range(8):
        try:
            C.goto_cc(cfile, entry, a, unit.get("defines"), inc)
            break
        except C.ToolError as e:
            # A changed body may mention a member variable no rewrite rule or template knows (e.g. a new guard `if (factor_ != 1.0)`).
            # In plain (bounded) mode such a symbol is declared as an arbitrary, unconstrained double and the unit is built again:
            # the obligations then have to hold for every value of it.  Anything else stays a tool error (exit 2, never a violation).
            m = re.search(r"failed to find symbol '(\w+)'", str(e))
            if not m or mode != "plain" or attempt == 7:
                raise
            with open(cfile) as f:
                txt = f.read()
            decl = "double %s; /* auto-declared: unknown member, arbitrary value */\n" % m.group(1)
            with open(cfile, "w") as f:
                f.write(decl + txt)
    if mode == "plain":
        return a, ""
    b = os.path.join(workdir, tag + "_b.gb")
    lc = unit.get("loop_contracts", True) if loop_contracts is None else loop_contracts
    with open(cfile) as f:
        ctext = f.read()
    for inc in re.findall(r'#include "([^"]+)"', ctext):
        for d in (os.path.join(VERIF, "units", os.path.dirname(unit["template"])), os.path.join(VERIF, "units", "common")):
            if os.path.exists(os.path.join(d, inc)):
                ctext += open(os.path.join(d, inc)).read()
                break
    ctext = X.strip_comments(ctext)
    # a stub that is declared but never called is dropped by goto-cc; DFCC then rejects --replace for it
    repl = [g for g in unit.get("replace", []) if len(re.findall(r"\b%s\s*\(" % re.escape(g), ctext)) >= 2]
    _, log = C.goto_instrument(a, b, entry, unit.get("enforce", []), repl, lc)
    return b, log


def flags_for(unit, confirm=False):
    fl = list(unit.get("flags", DEFAULT_FLAGS)) + list(unit.get("extra_flags", []))
    if unit.get("mode", "dfcc") == "plain":
        fl.append("--drop-unused-functions")
        if not unit.get("zero_init_statics"):
            fl.append("--nondet-static")   # globals are inputs, not zero (a zero-initialised ghost would make checks vacuous)
    uw = unit.get("unwind")
    if confirm:
        uw = unit["confirm"].get("unwind", uw)
        fl = [f for f in fl]
        if uw:
            fl += ["--unwind", str(uw)]
    elif uw:
        fl += ["--unwind", str(uw), "--unwinding-assertions"]
    for k, v in unit.get("unwindset", {}).items():
        fl += ["--unwindset", "%s:%d" % (k, v)]
    return fl


def run_props(gb, unit, flags, props, trace=False, timeout=None, backend=None, split=None):
    """Run cbmc on gb; with split='per-property' runs one process per property (in parallel)."""
    backend = backend or unit.get("backend", "minisat")
    timeout = timeout or unit.get("timeout", 600)
    split = unit.get("split", "none") if split is None else split
    entry = unit.get("entry", "harness") if unit.get("mode", "dfcc") == "plain" else None
    results, traces, logs, cmds = {}, {}, [], []
    secs = [0.0]
    status = ["ok"]
    warnings = []

    def one(sel):
        with _slots:
            r = C.run_cbmc(gb, flags, backend, sel, timeout, trace, entry)
        return sel, r

    if split == "none" or props is None:
        jobs = [None]
    elif split == "per-property":
        groups = unit.get("split_groups")  # list of regex -> grouped in one process
        names = [p["name"] for p in props]
        jobs = []
        used = set()
        for g in groups or []:
            sel = [n for n in names if re.search(g, n) and n not in used]
            if sel:
                jobs.append(sel)
                used.update(sel)
        for n in names:
            if n not in used:
                jobs.append([n])
    else:
        raise ValueError(split)
    with cf.ThreadPoolExecutor(max_workers=NCPU) as ex:
        for sel, r in ex.map(one, jobs):
            secs[0] += r["secs"]
            cmds.append(r["cmd"])
            warnings += r.get("warnings", [])
            if r["status"] != "ok":
                if status[0] == "ok" or r["status"] == "error":
                    status[0] = r["status"]
                logs.append("[%s] %s: %s" % (r["status"], sel, r["log"][-1500:]))
                for n in sel or []:
                    results.setdefault(n, ("UNKNOWN", r["status"]))
                continue
            for n, v in r["results"].items():
                if sel is None or n in sel:
                    results[n] = v
            traces.update(r["traces"])
    return dict(status=status[0], results=results, traces=traces, secs=secs[0], logs=logs, cmds=cmds, njobs=len(jobs),
                warnings=warnings)


def trace_values(trace):
    """Last assignment per lhs in a cbmc json trace, plus first assignment ('inputs')."""
    first, last = {}, {}
    for st in trace:
        if st.get("stepType") != "assignment":
            continue
        lhs = st.get("lhs")
        v = st.get("value", {})
        val = v.get("data", v.get("name"))
        if "binary" in v:
            val = dict(data=v.get("data"), binary=v["binary"], type=v.get("type"))
        if lhs is None:
            continue
        if lhs not in first:
            first[lhs] = val
        last[lhs] = val
    return first, last


def trace_excerpt(trace, limit=60):
    out = []
    for st in trace:
        t = st.get("stepType")
        if t == "assignment" and not st.get("hidden"):
            v = st.get("value", {})
            out.append("%s = %s  (%s:%s)" % (st.get("lhs"), v.get("data", v.get("name")),
                                              st.get("sourceLocation", {}).get("function"),
                                              st.get("sourceLocation", {}).get("line")))
        elif t == "failure":
            out.append("FAILURE: %s %s" % (st.get("property"), st.get("reason")))
    if len(out) > limit:
        out = out[:limit // 2] + ["..."] + out[-limit // 2:]
    return out


def run_unit(unit0, tier, scratch, do_canaries=True):
    unit = _tier_unit(unit0, tier)
    R = UnitResult(unit)
    t0 = time.time()
    wd = os.path.join(scratch, unit["name"])
    try:
        cfile, exs = generate_c(unit, wd)
        R.bodies = [dict(source=e["name"], file=e["file"], orig_sha=e["orig_sha"], emitted_sha=e["emitted_sha"],
                         loops=e["nloops"]) for e in exs]
        R.cfile = cfile
        gb, ilog = build(unit, cfile, wd)
        flags = flags_for(unit)
        props = C.list_properties(gb, flags, unit.get("entry", "harness") if unit.get("mode", "dfcc") == "plain" else None)
        r = run_props(gb, unit, flags, props)
        R.runs += r["njobs"]
        R.solver_secs += r["secs"]
        R.cmds = r["cmds"][:2]
        if any("ignoring" in w for w in r["warnings"]):
            R.status, R.reason = "error", "cbmc ignored a construct: %s" % r["warnings"][:2]
        _classify(R, unit, r, props)
        # a failed run: get traces / confirmation
        if R.status in ("violation", "aux-only"):
            _confirm(R, unit, wd, cfile, gb, flags)
        if R.status == "ok" and do_canaries:
            _canaries(R, unit, wd, tier)
    except X.ExtractionError as e:
        R.status, R.reason = "error", "extraction drift: %s" % e
    except C.ToolError as e:
        R.status, R.reason = "error", "tool error: %s" % str(e)[-3000:]
    except Exception as e:  # framework bug -> never a violation
        R.status, R.reason = "error", "framework exception: %s\n%s" % (e, traceback.format_exc()[-2000:])
    R.secs = time.time() - t0
    return R


def _classify(R, unit, r, props):
    if R.status == "error":
        return
    res = r["results"]
    if r["status"] == "error" and not res:
        R.status, R.reason = "error", "cbmc error: %s" % "; ".join(r["logs"])[-3000:]
        return
    names = {p["name"] for p in props}
    unknown = []
    for n in names:
        if n not in res:
            res[n] = ("UNKNOWN", "not reported")
    descs = {p["name"]: p["description"] for p in props}
    for n, (st, d) in sorted(res.items()):
        d = d if d not in ("timeout", "error", "not reported") else descs.get(n, d)
        if is_reach(d):
            R.reach_total += 1
            if st == "FAILURE":
                R.reach_hit += 1
            elif st == "SUCCESS":
                R.failed.append((n, "VACUITY: reachability goal not reachable: " + d, True))
            else:
                unknown.append(n)
            continue
        R.obligations += 1
        if re.search(r"loop.invariant|decreases|step case|base case", d, re.I) or "loop_invariant" in n:
            R.loop_obligations += 1
        if st == "SUCCESS":
            R.discharged += 1
        elif st == "FAILURE":
            R.failed.append((n, d, is_aux(n, d)))
        else:
            unknown.append(n)
    R.samples = ["%s: %s [%s]" % (n, res[n][1] if res[n][1] not in ("timeout", "error") else descs.get(n, ""), res[n][0])
                 for n in sorted(res) if "postcondition" in n or "assertion" in n][:12]
    if R.obligations == 0:
        R.status, R.reason = "error", "no obligations generated (vacuous harness)"
        return
    want_loops = sum(len([k for k in s.get("loops", {}) if isinstance(k, int)]) for s in unit.get("sources", []))
    want_loops += unit.get("template_loops", 0)
    if want_loops and unit.get("loop_contracts", True) and unit.get("mode", "dfcc") == "dfcc" and R.loop_obligations < 2 * min(want_loops, unit.get("expect_loops", want_loops if len(unit.get("sources", [])) == 1 else 1)):
        R.status, R.reason = "error", "loop contracts were dropped: %d loop obligations for %d contracted loops" % (R.loop_obligations, want_loops)
        return
    vac = [f for f in R.failed if f[1].startswith("VACUITY")]
    R.failed = [f for f in R.failed if not f[1].startswith("VACUITY")]
    prop_fail = [f for f in R.failed if not f[2]]
    aux_fail = [f for f in R.failed if f[2]]
    # an unreached reachability goal is a vacuity error only when nothing else failed: a change to the code
    # that breaks a postcondition may legitimately make a goal unreachable as well
    if vac and not prop_fail and not aux_fail:
        R.status, R.reason = "error", "vacuity guard: %s" % vac[0][1]
        return
    if prop_fail:
        R.status = "violation"
        R.reason = "failed obligation(s): " + ", ".join(n for n, _, _ in prop_fail[:6])
    elif aux_fail:
        R.status = "aux-only"
        R.reason = "only auxiliary obligation(s) failed: " + ", ".join(n for n, _, _ in aux_fail[:6])
    elif unknown or r["status"] != "ok":
        R.status = "undecided"
        R.reason = "solver gave no answer (%s) for: %s ; %s" % (r["status"], ", ".join(unknown[:6]), "; ".join(r["logs"])[-1500:])
    exp = unit.get("expect_obligations")
    if R.status == "ok" and exp and not (exp[0] <= R.obligations <= exp[1]):
        R.status, R.reason = "error", "obligation count %d outside expected range %s" % (R.obligations, exp)


def _confirm(R, unit, wd, cfile, gb, flags):
    """After a failure: obtain a trace.  For units with loop contracts, re-run without loop contracts,
    bounded (confirmation harness); for others re-run the failed property with --trace."""
    failed_names = [n for n, _, a in R.failed]
    try:
        conf = unit.get("confirm")
        if conf and unit.get("mode", "dfcc") == "dfcc" and unit.get("loop_contracts", True):
            u2 = copy.deepcopy(unit)
            u2.setdefault("defines", {}).update(conf.get("defines", {}))
            u2["split"] = "none"
            u2["backend"] = conf.get("backend", "minisat")
            gb2, _ = build(u2, cfile, wd, loop_contracts=False, tag="confirm")
            fl = flags_for(u2, confirm=True)
            big = 28 * (1 << 30)
            with _confirm_lock:   # confirmation runs are memory-hungry (DFCC instrumentation unwound): one at a time
                rr = C.run_cbmc(gb2, fl, u2["backend"], None, conf.get("timeout", 600), False, None, mem=big)
                R.runs += 1
                bad = [(n, d) for n, (st, d) in rr["results"].items()
                       if st == "FAILURE" and not is_reach(d) and not is_aux(n, d)]
                R.confirm = dict(ran=True, bound=conf, failed=[n for n, _ in bad], status=rr["status"], log=rr["log"][-400:] if rr["status"] != "ok" else "")
                r = dict(traces={})
                if bad:
                    rt = C.run_cbmc(gb2, fl, u2["backend"], [bad[0][0]], conf.get("timeout", 600), True, None, mem=big)
                    r = dict(traces=rt["traces"])
            if bad:
                n0 = bad[0][0]
                R.traces = {n: r["traces"].get(n) for n, _ in bad if r["traces"].get(n)}
                if R.status == "aux-only":
                    R.status = "violation"
                    R.reason += " ; confirmation harness (no loop contracts, unwind %s) fails %s" % (conf.get("unwind"), n0)
                    R.failed.append((n0, "confirmation: " + bad[0][1], False))
            else:
                if R.status == "aux-only":
                    R.status = "undecided"
                    R.reason += " ; bounded confirmation harness found no violating execution (proof broken, property not shown violated)"
        else:
            sel = [n for n, _, a in R.failed if not a][:3]
            if sel:
                r = run_props(gb, unit, flags, [dict(name=n) for n in sel], trace=True, timeout=unit.get("timeout", 300),
                              split="none") if False else None
                with _slots:
                    rr = C.run_cbmc(gb, flags, unit.get("trace_backend", unit.get("backend", "minisat")), sel,
                                    unit.get("timeout", 300), True,
                                    unit.get("entry", "harness") if unit.get("mode", "dfcc") == "plain" else None)
                R.runs += 1
                R.traces = {n: t for n, t in rr["traces"].items()}
            if R.status == "aux-only":
                R.status = "undecided"
                R.reason += " ; no confirmation harness for this unit"
    except Exception as e:
        R.reason += " ; (trace/confirmation run failed: %s)" % str(e)[-300:]
        if R.status == "aux-only":
            R.status = "undecided"


def _canaries(R, unit, wd, tier):
    cans = unit.get("canaries", [])
    if tier == "quick":
        cans = [c for c in cans if not c.get("thorough_only")]

    def one(c):
        cwd = os.path.join(wd, "canary_" + c["name"])
        try:
            cfile, _ = generate_c(unit, cwd, mutate=(c.get("where", "c"), c["rx"], c["repl"], c.get("count", 0)))
            u2 = unit
            if c.get("defines"):
                u2 = copy.deepcopy(unit)
                u2["defines"].update(c["defines"])
            gb, _ = build(u2, cfile, cwd)
            flags = flags_for(u2)
            props = None
            split = "none"
            if c.get("props"):
                allp = C.list_properties(gb, flags, unit.get("entry", "harness") if unit.get("mode", "dfcc") == "plain" else None)
                sel = [p for p in allp if any(re.search(x, p["name"]) or re.search(x, p["description"]) for x in c["props"])]
                if not sel:
                    return (c["name"], False, "canary property selection matched nothing")
                props = sel
                with _slots:
                    r0 = C.run_cbmc(gb, flags, c.get("backend", unit.get("backend", "minisat")), [p["name"] for p in sel],
                                    c.get("timeout", unit.get("timeout", 600)), False,
                                    unit.get("entry", "harness") if unit.get("mode", "dfcc") == "plain" else None)
                r = dict(results=r0["results"], status=r0["status"], secs=r0["secs"])
            else:
                r = run_props(gb, u2, flags, None, timeout=c.get("timeout", unit.get("timeout", 600)), split="none",
                              backend=c.get("backend"))
            R.runs += 1
            bad = [n for n, (st, d) in r["results"].items() if st == "FAILURE" and not is_reach(d)]
            if c.get("expect"):
                bad = [n for n in bad if re.search(c["expect"], n) or re.search(c["expect"], r["results"][n][1])]
            if bad:
                return (c["name"], True, "fails %s (%.1fs)" % (bad[0], r["secs"]))
            return (c["name"], False, "NOT detected (status %s)" % r["status"])
        except (X.ExtractionError, C.ToolError) as e:
            return (c["name"], False, "canary could not be built: %s" % str(e)[-300:])

    if not cans:
        return
    with cf.ThreadPoolExecutor(max_workers=min(len(cans), NCPU)) as ex:
        for res in ex.map(one, cans):
            R.canaries.append(res)
    alive = [c for c in R.canaries if not c[1]]
    if alive:
        R.status = "error"
        R.reason = "canary survived (harness too weak or vacuous): %s" % alive
